import TrustVerif.Lemmas.C05
import TrustVerif.Generated.HashUses
import TrustVerif.Model.C06

/-!
# C05 — execution and compilation are deterministic and reproducible

Property theorems only.  A Lean function is deterministic by construction, so the content is
independence from the one process-random input of the anchored code: the internal (iteration)
order of `std::collections::HashMap/HashSet`.  `Model/C05.lean` models such a map with its order
as a parameter (`Layout`), lookup-only client code (`Prog`) and the encoder functions that keep
hash maps; `Generated/HashUses.lean` is the table of every operation the anchored files apply to a
hash-typed binding.
-/
namespace TrustVerif.C05

/-- **Generic lookup-only lemma** (clause "independent of process, hash seeds, memory layout").
Client code that touches hash maps only through `get / contains / insert / entry / remove / len`
computes, under *every* layout of the tables, the result of the order-free semantics `den`, in
which maps are functions and have no order at all. -/
theorem c05_lookup_only {ι κ ν α : Type} [DecidableEq ι] [DecidableEq κ]
    (L : Layout κ ν) (p : Prog ι κ ν α) :
    exec L p = (den p (AMap.empty : AMap ι κ ν)).1 :=
  exec_eq_den L p

/-- Consequence in the form of the property's quantifier: two runs (two processes `r1`, `r2` with
their own hash seeds / layouts) of the same lookup-only code give the same result. -/
theorem c05_lookup_only_pair {ι κ ν α : Type} [DecidableEq ι] [DecidableEq κ]
    (L₁ L₂ : Layout κ ν) (p : Prog ι κ ν α) : exec L₁ p = exec L₂ p := by
  rw [c05_lookup_only L₁ p, c05_lookup_only L₂ p]

/-- The same from arbitrary (not only empty) tables: if two heaps hold the same tables up to
internal order, any lookup-only code returns the same result on both and leaves them holding the
same tables up to order again. -/
theorem c05_lookup_only_from {ι κ ν α : Type} [DecidableEq ι] [DecidableEq κ]
    (L₁ L₂ : Layout κ ν) (p : Prog ι κ ν α) (h₁ h₂ : Heap ι κ ν)
    (w : h₁.Wf) (hp : ∀ i, (h₁.tbl i).Perm (h₂.tbl i)) :
    (run L₁ p h₁).1 = (run L₂ p h₂).1 ∧ (run L₁ p h₁).2.abs = (run L₂ p h₂).2.abs := by
  have w₂ : h₂.Wf := fun i => nodupKeys_perm (hp i).symm (w i)
  have habs : h₁.abs = h₂.abs := by
    simp only [Heap.abs]
    congr 1
    · funext i k; exact lookup_perm (hp i) (w i) k
    · funext i; exact (hp i).length_eq
  obtain ⟨a1, _, a3⟩ := run_den L₁ p h₁ w
  obtain ⟨b1, _, b3⟩ := run_den L₂ p h₂ w₂
  rw [a1, b1, a3, b3, habs]
  exact ⟨rfl, rfl⟩

example : (Heap.empty : Heap Unit Nat Nat).Wf := Heap.wf_empty

/-- **Sharpness**: the restriction to lookup-only operations is necessary.  A program that
iterates (`iter/keys/values/drain/for … in`) returns different results under different layouts. -/
theorem c05_iter_exposes_order :
    ∃ (L₁ L₂ : Layout Nat Nat) (p : ProgI Unit Nat Nat (List (Nat × Nat))),
      runI L₁ p Heap.empty ≠ runI L₂ p Heap.empty :=
  ⟨Layout.keep, Layout.flip,
    .insert () 1 10 fun _ => .insert () 2 20 fun _ => .insert () 3 30 fun _ => .iter () .ret,
    by decide⟩

/-- **String interning in first-seen order** (mechanism `StringInterner`).  For every layout of
`index` and every request sequence, `into_table` is the list of distinct requests in first-seen
order and every request is answered with its position in that table. -/
theorem c05_intern_order_free {σ : Type} [DecidableEq σ] (L : Layout σ Nat) (reqs : List σ) :
    (exec L (internAllP [] reqs)).2 = dedupFirstSeen reqs ∧
    (exec L (internAllP [] reqs)).1.map some =
      reqs.map (fun r => idxOf? r (dedupFirstSeen reqs)) := by
  rw [c05_lookup_only L]
  exact den_internAllP reqs [] AMap.empty (fun k => by simp [AMap.empty, idxOf?])

/-- Corollary: the interned table never contains a string twice. -/
theorem c05_intern_table_nodup {σ : Type} [DecidableEq σ] (L : Layout σ Nat) (reqs : List σ) :
    (exec L (internAllP [] reqs)).2.Nodup := by
  rw [(c05_intern_order_free L reqs).1]
  exact dedupFirstSeen_nodup reqs

/-- **`PouIdMap` and the POU emission order** (mechanism "ordered iteration via IndexMap").  Under
every layout of the five id maps, the emitted POU index lists programs, function blocks,
functions, classes, function-block methods and class methods in the iteration order of the
runtime's `IndexMap`s, and the id of every POU is its position in that allocation order.
Hypotheses: no two POUs share a normalised key in the same map, and fewer than 2^32 POUs (the
`u32` id counter saturates beyond). -/
theorem c05_pou_index_closed_form (L : Layout PouKey Nat) (norm : String → String) (r : PouNames)
    (hnd : (allKeys norm r).Nodup) (hlen : (allKeys norm r).length ≤ u32Max) :
    exec L (pouIndexP norm r) = rowsPure norm r (fun m k => idxOf? (m, k) (allKeys norm r)) := by
  rw [c05_lookup_only L]
  exact den_pouIndexP norm r hnd hlen

/-- Non-vacuity: a runtime with two programs, a function block with two methods, a function and
a class with one method satisfies the hypotheses, and the ids are 0,1 | 2 | 3 | 4 | 5,6 | 7. -/
example :
    let r : PouNames := { programs := ["Main", "Aux"], functionBlocks := [("Fb", ["M1", "M2"])],
                          functions := ["F"], classes := [("C", ["G"])] }
    exec (Layout.spin 3) (pouIndexP id r) =
      [⟨0, "Main", some 0, none⟩, ⟨0, "Aux", some 1, none⟩, ⟨1, "Fb", some 2, none⟩, ⟨2, "F", some 3, none⟩,
       ⟨3, "C", some 4, none⟩, ⟨4, "M1", some 5, some 2⟩, ⟨4, "M2", some 6, some 2⟩, ⟨4, "G", some 7, some 4⟩] := by
  decide

/-- Non-vacuity of the hypotheses of `c05_pou_index_closed_form` on the same runtime. -/
example :
    let r : PouNames := { programs := ["Main", "Aux"], functionBlocks := [("Fb", ["M1", "M2"])],
                          functions := ["F"], classes := [("C", ["G"])] }
    (allKeys id r).Nodup ∧ (allKeys id r).length ≤ u32Max := by
  decide

/-- **Vtable layout** (`method_table_for` with its `method_tables` cache and the local
`name_to_slot` maps) does not depend on the layout of those maps. -/
theorem c05_vtable_order_free (L₁ L₂ : Layout String VtVal) (norm : String → String)
    (classLike : String → Option (Option String × List String))
    (methodId : String → String → Option Nat) (fuel : Nat) (owners : List String) :
    exec L₁ (methodTablesP norm classLike methodId fuel owners) =
      exec L₂ (methodTablesP norm classLike methodId fuel owners) :=
  c05_lookup_only_pair L₁ L₂ _

/-- **FOR-loop temporaries** (`alloc_for_temp_pairs` / `unique_temp_name` with the `used`
HashSet): the chosen names do not depend on the layout of the set. -/
theorem c05_temp_pairs_order_free (L₁ L₂ : Layout String Unit) (norm : String → String)
    (existing : List String) (count : Nat) :
    exec L₁ (allocForTempPairsP norm existing count) = exec L₂ (allocForTempPairsP norm existing count) :=
  c05_lookup_only_pair L₁ L₂ _

/-- **Type table** (`type_index` / `collect_decl_types` with `type_map`, reserve-then-fill, over
arbitrary — also recursive — type graphs): the emitted table does not depend on the layout. -/
theorem c05_type_index_order_free (L₁ L₂ : Layout Nat Nat) (children : Nat → List Nat) (fuel : Nat)
    (decls : List Nat) :
    exec L₁ (collectTypesP children fuel decls []) = exec L₂ (collectTypesP children fuel decls []) :=
  c05_lookup_only_pair L₁ L₂ _

/-- **Reference table, string tables, debug file labels** (`ref_index_for` with `ref_map`,
`StringInterner::intern` for `strings` and `debug_strings`, `file_path_index` with
`file_path_indices`), for any interleaving of requests: indices handed out and all three emitted
tables do not depend on the layout of the four maps. -/
theorem c05_ref_string_tables_order_free (L₁ L₂ : Layout EKey Nat) (label : Nat → String)
    (reqs : List EncReq) :
    (exec L₁ (encRequestsP label reqs {})).1 = (exec L₂ (encRequestsP label reqs {})).1 ∧
    (exec L₁ (encRequestsP label reqs {})).2.refEntries = (exec L₂ (encRequestsP label reqs {})).2.refEntries ∧
    (exec L₁ (encRequestsP label reqs {})).2.strings = (exec L₂ (encRequestsP label reqs {})).2.strings ∧
    (exec L₁ (encRequestsP label reqs {})).2.debugStrings = (exec L₂ (encRequestsP label reqs {})).2.debugStrings := by
  rw [c05_lookup_only_pair L₁ L₂]
  exact ⟨rfl, rfl, rfl, rfl⟩

/-- **Duplicate-name detection** of `build_runtime_from_source_files` (four `HashSet`s): which
definition is reported as duplicate does not depend on the layout. -/
theorem c05_duplicate_names_order_free (L₁ L₂ : Layout String Unit) (norm : String → String)
    (names : List String) :
    exec L₁ (firstDuplicateP norm names) = exec L₂ (firstDuplicateP norm names) :=
  c05_lookup_only_pair L₁ L₂ _

/-- **Hierarchical I/O addresses** (`IoInterface.hierarchical`): every sequence of reads and
writes returns the same values under every layout. -/
theorem c05_hierarchical_io_order_free (L₁ L₂ : Layout (List Nat) Int) (ops : List HierOp) :
    exec L₁ (hierP ops) = exec L₂ (hierP ops) :=
  c05_lookup_only_pair L₁ L₂ _

/-- **No order exposure on the compile and execution path.**  Every operation that the scanned
Rust files (trust-runtime: bytecode/**, harness/**, runtime/**, eval/**, stdlib/**, value/**,
debug/**, memory.rs, io.rs, …; table regenerated from the sources by `checks/c05_scan.py` on every
run) apply to a `std` `HashMap`/`HashSet` binding is order-free — an instance of the operations of
`Prog`, to which `c05_lookup_only` applies — or is one of the hand-reviewed uses of
`reviewedBenign`, whose order-independence is proved below on a model of that loop.  An added
`.iter()/.keys()/.values()/.drain()/for … in`/unrecognised use breaks this proof; the check then
names the file and line. -/
theorem c05_no_order_exposure :
    ∀ u ∈ Gen.hashUses, u.hasher = .std →
      orderFree u.op = true ∨ ∃ r ∈ reviewedBenign, r.matchesUse u = true := by
  have h : usesOk Gen.hashUses = true := by decide +kernel
  simp only [usesOk, Bool.and_eq_true] at h
  intro u hu hs
  have := List.all_eq_true.mp h.1 u hu
  simp only [hs, bne_self_eq_false, Bool.false_or, Bool.or_eq_true, List.any_eq_true] at this
  exact this

/-- No reviewed exception is used more often than it allows (each is one specific loop). -/
theorem c05_reviewed_uses_bounded :
    ∀ r ∈ reviewedBenign, (Gen.hashUses.filter r.matchesUse).length ≤ r.max := by
  have h : usesOk Gen.hashUses = true := by decide +kernel
  simp only [usesOk, Bool.and_eq_true] at h
  intro r hr
  exact of_decide_eq_true (List.all_eq_true.mp h.2 r hr)

/-- The parser and type-checker crates (trust-syntax, trust-hir) contain no `std` hash container at
all outside tests (they use `rustc_hash`, which has no per-process seed), so the table above covers
every `RandomState` of the compile-and-run pipeline. -/
theorem c05_front_end_std_hash_free : Gen.frontEndStdHash = [] := by decide

/-- **No unreviewed environment input** (clauses "independent of process, … memory layout and
wall-clock time").  Every `thread_local!`, mutable/interior-mutable `static`, address-derived value
(`as_ptr`, `as *const`, `{:p}`), `std::env` read, file-system access (`canonicalize`, `exists`, …),
`Instant/SystemTime::now`, process or thread id, thread spawn, explicit randomness or machine
query in the scanned part of trust-runtime and in trust-hir / trust-syntax (table regenerated on
every run) is one of the hand-reviewed sites of `reviewedEnv`, none of which can reach container
bytes or cycle results under the stated assumptions; a new site breaks this proof. -/
theorem c05_env_inputs_reviewed :
    (∀ u ∈ Gen.envUses, ∃ r ∈ reviewedEnv, r.matchesUse u = true) ∧
    (∀ r ∈ reviewedEnv, (Gen.envUses.filter r.matchesUse).length ≤ r.max) := by
  have h : envUsesOk Gen.envUses = true := by decide +kernel
  simp only [envUsesOk, Bool.and_eq_true] at h
  refine ⟨fun u hu => ?_, fun r hr => of_decide_eq_true (List.all_eq_true.mp h.2 r hr)⟩
  have := List.all_eq_true.mp h.1 u hu
  simpa [List.any_eq_true] using this

/-- **Reviewed use 1** (`for (type_name, policy) in retain_by_type`, harness/config.rs): visiting
the table in any order gives the same program definitions, because entries with distinct
normalised type names update distinct programs. -/
theorem c05_reviewed_retain_overrides_order_free (norm : String → String)
    (defs : String → Option (List (Option Nat))) (t₁ t₂ : List (String × Nat))
    (p : t₁.Perm t₂) (hnd : (t₁.map fun e => norm e.1).Nodup) :
    applyRetainAll norm defs t₁ = applyRetainAll norm defs t₂ := by
  unfold applyRetainAll
  apply foldl_perm_of_comm (applyRetain norm) p
  intro a ha b hb s
  apply applyRetain_comm
  by_cases e : norm a.1 = norm b.1
  · exact Or.inl (inj_of_nodup_map (fun e => norm e.1) hnd a ha b hb e)
  · exact Or.inr e

example : ([("Main", 1), ("Aux", 2)].map fun (e : String × Nat) => id e.1).Nodup := by decide

/-- **Reviewed use 2** (`frame_locations.retain(pure predicate)`, debug/control.rs): after
`retain` with a side-effect-free predicate, two tables that held the same entries in different
internal orders still hold the same entries (every lookup agrees). -/
theorem c05_reviewed_retain_pure_order_free {κ ν : Type} [DecidableEq κ] (keep : κ × ν → Bool)
    (l₁ l₂ : List (κ × ν)) (p : l₁.Perm l₂) (h : NodupKeys l₁) (k : κ) :
    lookup k (l₁.filter keep) = lookup k (l₂.filter keep) := by
  apply lookup_perm (p.filter keep)
  unfold NodupKeys at *
  exact List.Nodup.sublist (List.Sublist.map _ List.filter_sublist) h

example : NodupKeys [((1 : Nat), (10 : Nat)), (2, 20)] := by unfold NodupKeys; decide

/-- The table is not empty, and the hypothesis of `c05_no_order_exposure` is met by most rows. -/
example : Gen.hashUses.length > 40 := by decide +kernel
example : (Gen.hashUses.filter fun u => u.hasher == .std).length > 40 := by decide +kernel

/-- **Traces** (clause "same input and clock trace ⇒ identical states, outputs, faults, events at
every cycle").  If one cycle does not depend on the environment (process, hash seed, layout, wall
clock) then no run does, even when the environment changes between cycles and between the runs. -/
theorem c05_trace_env_free {ε σ ι ω : Type} (step : ε → σ → ι → σ × ω)
    (hstep : ∀ e₁ e₂ s i, step e₁ s i = step e₂ s i) :
    ∀ (inputs : List ι) (env₁ env₂ : Nat → ε) (k₁ k₂ : Nat) (s : σ),
      trace step env₁ k₁ s inputs = trace step env₂ k₂ s inputs := by
  intro inputs
  induction inputs with
  | nil => intros; rfl
  | cons i is ih =>
    intro env₁ env₂ k₁ k₂ s
    simp only [trace]
    rw [hstep (env₁ k₁) (env₂ k₂) s i]
    congr 1
    exact ih env₁ env₂ (k₁ + 1) (k₂ + 1) _

example : ∀ e₁ e₂ (s i : Nat), (fun (_ : Bool) (s i : Nat) => (s + i, s * i)) e₁ s i =
    (fun (_ : Bool) (s i : Nat) => (s + i, s * i)) e₂ s i := fun _ _ _ _ => rfl

/-- Instance for the scheduler model of C06 (`cycle.rs`): one scheduling cycle is a function of
(task states, SINGLE values, `now`) and of nothing else, hence every run of the scheduler model on
the same clock/input trace produces the same sequence of executed tasks, programs and overrun
events whatever environment `ε` each cycle runs in.  (For a Lean function this is true by
construction; the statement records that the model has no hidden input.) -/
theorem c05_scheduler_trace_env_free {ε : Type} (tasks : List C06.Task) (nprogs : Nat)
    (env₁ env₂ : Nat → ε) (sts : List C06.TState) (inputs : List ((Nat → Bool) × Int)) :
    trace (fun (_ : ε) st (i : (Nat → Bool) × Int) => C06.cycle tasks nprogs st i.1 i.2) env₁ 0 sts inputs =
    trace (fun (_ : ε) st (i : (Nat → Bool) × Int) => C06.cycle tasks nprogs st i.1 i.2) env₂ 0 sts inputs :=
  c05_trace_env_free _ (fun _ _ _ _ => rfl) inputs env₁ env₂ 0 0 sts

/-- The executable oracle `agree`, which the driver applies to the observations of the parent and
child processes, is the property's quantifier "for all pairs of processes (r1, r2)". -/
theorem c05_agree_iff_pairwise {δ : Type} [DecidableEq δ] (obs : List δ) (hne : obs ≠ []) :
    (agree obs).isSome = true ↔ ∀ x ∈ obs, ∀ y ∈ obs, x = y := by
  cases obs with
  | nil => exact absurd rfl hne
  | cons d ds =>
    simp only [agree]
    by_cases h : (ds.all fun x => decide (x = d)) = true
    · simp only [h, if_true, Option.isSome_some, true_iff]
      have hall : ∀ x ∈ ds, x = d := by simpa using h
      intro x hx y hy
      have ex : x = d := by rcases List.mem_cons.mp hx with e | m; exact e; exact hall x m
      have ey : y = d := by rcases List.mem_cons.mp hy with e | m; exact e; exact hall y m
      rw [ex, ey]
    · simp only [h]
      constructor
      · intro e; cases e
      · intro hp
        have hall : (ds.all fun x => decide (x = d)) = true := by
          rw [List.all_eq_true]
          intro x hx
          exact decide_eq_true (hp x (List.mem_cons_of_mem _ hx) d (List.mem_cons_self ..))
        exact absurd hall h

/-- … and when it answers, the answer is the common observation. -/
theorem c05_agree_value {δ : Type} [DecidableEq δ] (obs : List δ) (d : δ) (h : agree obs = some d) :
    ∀ x ∈ obs, x = d := by
  cases obs with
  | nil => simp [agree] at h
  | cons e es =>
    simp only [agree] at h
    by_cases hh : (es.all fun x => decide (x = e)) = true
    · simp only [hh, if_true, Option.some.injEq] at h
      subst h
      have hall : ∀ x ∈ es, x = e := by simpa using hh
      intro x hx
      rcases List.mem_cons.mp hx with e' | m
      · exact e'
      · exact hall x m
    · simp [hh] at h

example : agree [3, 3, 3] = some 3 := by decide
example : agree [3, 4, 3] = none := by decide

/-! ### Orders fixed by the sources: import lists and named arguments -/

/-- **Import lists** (clause "byte-identical containers … identical variable states", mechanism
"first match wins over the USING list").  `collect_using_directives` returns the imports of the
scope chain in source order; a clean-up of repeated imports that uses its hash set through
`get`/`insert` only (the interner's loop: keep the first occurrence) leaves every first-match
lookup unchanged, under every layout of the set, for every scope chain and every declaration
predicate. -/
theorem c05_using_dedup_order_free {σ : Type} [DecidableEq σ] (L : Layout σ Nat)
    (chain : List (List σ)) (declares : σ → Bool) :
    resolveUsing declares (exec L (internAllP [] (collectUsing chain))).2 =
      resolveUsing declares (collectUsing chain) := by
  rw [(c05_intern_order_free L (collectUsing chain)).1]
  exact find?_dedupFirstSeen declares (collectUsing chain)

example : resolveUsing (fun n => n = 2 || n = 3) (collectUsing [[3, 2], [1], [3]]) = some 3 := by decide

/-- **Sharpness**: rebuilding the import list from the set (`set.into_iter().collect()`) exposes the
set's internal order to the first-match lookups: with a namespace imported twice on the chain and
two imported namespaces declaring the name, two layouts resolve the name differently. -/
theorem c05_using_rebuild_exposes_order :
    ∃ (L₁ L₂ : Layout Nat Nat) (chain : List (List Nat)) (declares : Nat → Bool),
      resolveUsing declares (runI L₁ (dedupUsingIterP (collectUsing chain)) Heap.empty) ≠
        resolveUsing declares (runI L₂ (dedupUsingIterP (collectUsing chain)) Heap.empty) :=
  ⟨Layout.keep, Layout.flip, [[1, 2], [1]], fun _ => true, by decide⟩

/-- **Named arguments** (clause "identical variable states, outputs, faults").  A formal call that
evaluates its arguments in the order in which they are written and files the values in a slot table
that is only inserted into and looked up returns the same values, the same fault and the same
state under every layout of that table (two processes `r1`, `r2`). -/
theorem c05_named_args_order_free {σ ε ν : Type} (L₁ L₂ : Layout Nat ν) (count : Nat)
    (args : List (NArg σ ε ν)) (s : σ) :
    exec L₁ (bindNamedArgsP count args s) = exec L₂ (bindNamedArgsP count args s) :=
  c05_lookup_only_pair L₁ L₂ _

/-- … and the state it leaves is the composition of the arguments' side effects in WRITTEN order,
up to and including the first argument that faults. -/
theorem c05_named_args_effects_in_written_order {σ ε ν : Type} (L : Layout Nat ν) (count : Nat)
    (args : List (NArg σ ε ν)) (s : σ) :
    (exec L (bindNamedArgsP count args s)).2 = effectsInWrittenOrder args s := by
  rw [c05_lookup_only L]
  exact den_bindNamedArgsP_state count args s AMap.empty

example :
    (exec (Layout.flip : Layout Nat Nat)
      (bindNamedArgsP (ε := Unit) 2
        [⟨1, fun log => (.ok 7, log * 10 + 2)⟩, ⟨0, fun log => (.ok 8, log * 10 + 1)⟩] 0)) =
      (.ok [some 8, some 7], 21) := by rfl

/-- **Sharpness**: filing the arguments first and evaluating them while iterating the slot table
exposes the table's order in the variable states (the log of side effects differs between two
layouts). -/
theorem c05_named_args_iter_exposes_order :
    ∃ (L₁ L₂ : Layout Nat Nat) (args : List (Nat × Nat)),
      runI L₁ (evalArgsIterP (fun d log => log * 10 + d) args 0) Heap.empty ≠
        runI L₂ (evalArgsIterP (fun d log => log * 10 + d) args 0) Heap.empty :=
  ⟨Layout.keep, Layout.flip, [(0, 1), (1, 2)], by decide⟩

end TrustVerif.C05
