import TrustVerif.Lemmas.C06

/-!
# C06 — task scheduling follows the IEC 61131-3 task model on every timeline

Property theorems only.  `Model/C06.lean` mirrors `collect_ready_tasks`, the sort in
`execute_cycle` and `execute_background_programs`; `Spec` is the history-level definition.
-/
namespace TrustVerif.C06

/-- **Refinement, per task, for every timeline and every cycle index.**  The scheduler state
before cycle `k` is the specification state (`last_single = s_{k-1}`, `last_run` = time of the
latest periodic activation, overrun counter = saturated sum of missed activations), and what
cycle `k` reports is exactly the specification's due predicate, due time and missed count. -/
theorem c06_task_refines (sp : Spec) (h : sp.TimesOk) (k : Nat) :
    implState sp k = sp.stateAt k ∧
    (stepTask sp.iv (implState sp k) (sp.t k) (sp.s k)).due =
      (if sp.dueAt k then some (sp.dueTime k) else none) ∧
    (stepTask sp.iv (implState sp k) (sp.t k) (sp.s k)).missed = sp.missedAt k := by
  have hstate : ∀ k, implState sp k = sp.stateAt k := by
    intro k
    induction k with
    | zero => simp [implState, Spec.stateAt, register, Spec.sPrev, Spec.lastP, Spec.overrunsBefore]
    | succ k ih =>
      have hr := sp.lastP_range h k
      have ht := h.2 k
      have hs : sat64 (sp.t k - sp.lastP k) = sp.t k - sp.lastP k :=
        sat64_id (by unfold i64Min; unfold i64Max at *; omega) (by unfold i64Max at *; omega)
      simp only [implState, ih]
      simp only [stepTask, Spec.stateAt, hs]
      by_cases hp : (decide (sp.iv > 0) && !sp.s k && decide (sp.t k - sp.lastP k ≥ sp.iv)) = true
      · simp only [hp, if_true]
        simp [Spec.sPrev, Spec.lastP, Spec.overrunsBefore, Spec.missedAt, Spec.periodicAt, hp]
      · simp only [hp]
        have hle := sp.overrunsBefore_le k
        simp [Spec.sPrev, Spec.lastP, Spec.overrunsBefore, Spec.missedAt, Spec.periodicAt, hp]
        omega
  refine ⟨hstate k, ?_, ?_⟩
  · have hr := sp.lastP_range h k
    have ht := h.2 k
    have hs : sat64 (sp.t k - sp.lastP k) = sp.t k - sp.lastP k :=
      sat64_id (by unfold i64Min; unfold i64Max at *; omega) (by unfold i64Max at *; omega)
    rw [hstate k]
    simp only [stepTask, Spec.stateAt, hs]
    by_cases hp : (decide (sp.iv > 0) && !sp.s k && decide (sp.t k - sp.lastP k ≥ sp.iv)) = true
    · by_cases he : (!sp.sPrev k && sp.s k) = true
      · simp [hp, he, Spec.dueAt, Spec.dueTime, Spec.periodicAt, Spec.eventAt]
        split <;> simp_all
      · simp [hp, he, Spec.dueAt, Spec.periodicAt, Spec.eventAt, Spec.dueTime]
    · by_cases he : (!sp.sPrev k && sp.s k) = true
      · simp [hp, he, Spec.dueAt, Spec.dueTime, Spec.periodicAt, Spec.eventAt]
      · simp [hp, he, Spec.dueAt, Spec.dueTime, Spec.periodicAt, Spec.eventAt]
  · have hr := sp.lastP_range h k
    have ht := h.2 k
    have hs : sat64 (sp.t k - sp.lastP k) = sp.t k - sp.lastP k :=
      sat64_id (by unfold i64Min; unfold i64Max at *; omega) (by unfold i64Max at *; omega)
    rw [hstate k]
    simp only [stepTask, Spec.stateAt, hs]
    by_cases hp : (decide (sp.iv > 0) && !sp.s k && decide (sp.t k - sp.lastP k ≥ sp.iv)) = true
    · simp [hp, Spec.missedAt, Spec.periodicAt]
    · simp [hp, Spec.missedAt, Spec.periodicAt]

/-- The specification's due predicate is the IEC rule of the property statement: periodic when
`INTERVAL > 0`, SINGLE is false and at least `INTERVAL` elapsed since the last (periodic)
activation; event-driven on a rising edge of SINGLE. -/
theorem c06_due_iff (sp : Spec) (k : Nat) :
    sp.dueAt k = true ↔
      (sp.sPrev k = false ∧ sp.s k = true) ∨
      (sp.iv > 0 ∧ sp.s k = false ∧ sp.t k - sp.lastP k ≥ sp.iv) := by
  simp [Spec.dueAt, Spec.eventAt, Spec.periodicAt, and_assoc]

/-- The executed task list is a permutation of the ready set … -/
theorem c06_exec_perm (ready : List Ready) : (order ready).Perm ready :=
  List.mergeSort_perm ready keyLe

/-- … sorted by `(priority, due time, declaration index)` … -/
theorem c06_exec_sorted (ready : List Ready) : (order ready).Pairwise (fun a b => keyLe a b = true) :=
  List.pairwise_mergeSort keyLe_trans keyLe_total ready

/-- … in which no task occurs twice (at most one activation per task per cycle, however many
intervals elapsed: missed activations are counted, not replayed). -/
theorem c06_no_replay (tasks : List Task) (sts : List TState) (sv : Nat → Bool) (now : Int) :
    ((order (collect tasks sts sv now).2).map (·.index)).Nodup := by
  have hs := (collectAux_sorted sv now 0 (tasks.zip sts)).1
  have hn : ((collect tasks sts sv now).2.map (·.index)).Nodup := by
    unfold collect
    exact hs.imp (fun h => Nat.ne_of_lt h)
  exact ((c06_exec_perm _).map _).nodup_iff.2 hn

/-- A task is executed in a cycle iff its own step reported it due (soundness and completeness of
the ready set with respect to the per-task rule). -/
theorem c06_executed_iff (tasks : List Task) (sts : List TState) (sv : Nat → Bool) (now : Int)
    (hlen : sts.length = tasks.length) (i : Nat) :
    i ∈ (order (collect tasks sts sv now).2).map (·.index) ↔
      ∃ h : i < tasks.length, ∃ h' : i < sts.length,
        (stepTask tasks[i].interval sts[i] now (singleNow tasks[i] sv)).due.isSome = true := by
  rw [(c06_exec_perm _).map _ |>.mem_iff]
  unfold collect
  simp only [List.mem_map]
  constructor
  · rintro ⟨r, hr, rfl⟩
    obtain ⟨j, hj, h1, _, h3⟩ := (collectAux_mem sv now 0 _ r).1 hr
    have hj' : j < tasks.length := by simp [List.length_zip] at hj; omega
    have hj'' : j < sts.length := by omega
    refine ⟨by omega, by omega, ?_⟩
    have : r.index = j := by omega
    subst this
    simp only [List.getElem_zip] at h3
    simp [h3]
  · rintro ⟨h, h', hd⟩
    have hz : i < (tasks.zip sts).length := by simp [List.length_zip]; omega
    cases hdue : (stepTask tasks[i].interval sts[i] now (singleNow tasks[i] sv)).due with
    | none => simp [hdue] at hd
    | some d =>
      refine ⟨{ index := i, dueAt := d, priority := tasks[i].priority }, ?_, rfl⟩
      refine (collectAux_mem sv now 0 _ _).2 ⟨i, hz, by simp, by simp [List.getElem_zip], ?_⟩
      simp only [List.getElem_zip]
      exact hdue

/-- The scheduler state of all tasks is updated pointwise (tasks do not influence each other). -/
theorem c06_states_pointwise (tasks : List Task) (sts : List TState) (sv : Nat → Bool) (now : Int) :
    (collect tasks sts sv now).1 =
      (tasks.zip sts).map (fun p => (stepTask p.1.interval p.2 now (singleNow p.1 sv)).st) :=
  collectAux_states sv now 0 _

/-- **Configuration-level refinement, for every task set, every timeline and every cycle.**
Before cycle `k` the scheduler state of every task is its specification state, and the set of
tasks executed in cycle `k` is exactly the set of tasks that are due by the IEC rule
(`c06_due_iff`); order, uniqueness and background programs are `c06_exec_sorted`,
`c06_no_replay`, `c06_background_after`. -/
theorem c06_config_refines (tasks : List Task) (t0 : Int) (sv0 : Nat → Bool) (t : Nat → Int)
    (sv : Nat → Nat → Bool) (h0 : 0 ≤ t0 ∧ t0 ≤ i64Max) (ht : ∀ k, 0 ≤ t k ∧ t k ≤ i64Max) (k : Nat) :
    runStates tasks t0 sv0 t sv k = tasks.map (fun tk => (specOf tk t0 sv0 t sv).stateAt k) ∧
    ∀ i, i ∈ (order (collect tasks (runStates tasks t0 sv0 t sv k) (sv k) (t k)).2).map (·.index) ↔
      ∃ h : i < tasks.length, (specOf tasks[i] t0 sv0 t sv).dueAt k = true := by
  have hok : ∀ tk : Task, (specOf tk t0 sv0 t sv).TimesOk := fun tk => ⟨h0, ht⟩
  have hst : ∀ k, runStates tasks t0 sv0 t sv k =
      tasks.map (fun tk => (specOf tk t0 sv0 t sv).stateAt k) := by
    intro k
    induction k with
    | zero =>
      simp only [runStates]
      apply List.map_congr_left
      intro tk _
      have := (c06_task_refines (specOf tk t0 sv0 t sv) (hok tk) 0).1
      simpa [implState, specOf] using this
    | succ k ih =>
      simp only [runStates, c06_states_pointwise, ih, map_zip_map_right]
      apply List.map_congr_left
      intro tk _
      have h1 := (c06_task_refines (specOf tk t0 sv0 t sv) (hok tk) k).1
      have h2 := (c06_task_refines (specOf tk t0 sv0 t sv) (hok tk) (k + 1)).1
      simp only [implState, h1] at h2
      simpa [specOf] using h2
  refine ⟨hst k, ?_⟩
  intro i
  have hlen : (runStates tasks t0 sv0 t sv k).length = tasks.length := by simp [hst k]
  rw [c06_executed_iff tasks _ (sv k) (t k) hlen i]
  constructor
  · rintro ⟨h, h', hd⟩
    refine ⟨h, ?_⟩
    have hr := c06_task_refines (specOf tasks[i] t0 sv0 t sv) (hok _) k
    have hs : (runStates tasks t0 sv0 t sv k)[i] = (specOf tasks[i] t0 sv0 t sv).stateAt k := by
      simp [hst k]
    rw [hs, ← hr.1] at hd
    have h2 := hr.2.1
    simp only [specOf] at h2 hd
    rw [h2] at hd
    by_cases hdue : (specOf tasks[i] t0 sv0 t sv).dueAt k = true
    · exact hdue
    · simp only [specOf] at hdue
      simp [hdue] at hd
  · rintro ⟨h, hdue⟩
    refine ⟨h, by omega, ?_⟩
    have hr := c06_task_refines (specOf tasks[i] t0 sv0 t sv) (hok _) k
    have hs : (runStates tasks t0 sv0 t sv k)[i] = (specOf tasks[i] t0 sv0 t sv).stateAt k := by
      simp [hst k]
    rw [hs, ← hr.1]
    have h2 := hr.2.1
    simp only [specOf] at h2 hdue ⊢
    rw [h2]
    simp [hdue]

/-- Programs without a task run after every task's programs, in registration order. -/
theorem c06_background_after (tasks : List Task) (n : Nat) (sts : List TState) (sv : Nat → Bool)
    (now : Int) :
    ∃ pre, (cycle tasks n sts sv now).2.programs = pre ++ background tasks n ∧
      (∀ p ∈ background tasks n, p ∉ scheduled tasks) ∧
      (background tasks n).Pairwise (· < ·) := by
  refine ⟨_, rfl, ?_, ?_⟩
  · intro p hp
    simp [background] at hp
    exact hp.2
  · unfold background
    exact List.Pairwise.filter _ (List.pairwise_lt_range)

/-- Non-vacuity: a concrete timeline satisfying `TimesOk` on which a periodic task with interval
10 is due at t = 10 and, after a jump to t = 45, is due once with 2 missed activations. -/
example :
    let sp : Spec := { iv := 10, t0 := 0, s0 := false, t := fun k => [0, 10, 45].getD k 45, s := fun _ => false }
    sp.dueAt 0 = false ∧ sp.dueAt 1 = true ∧ sp.dueAt 2 = true ∧ sp.missedAt 2 = 2 ∧
      sp.overrunsBefore 3 = 2 := by
  decide

/-- The executed order does not depend on the sorting algorithm. -/
theorem c06_order_unique (ready l : List Ready) (hp : l.Perm ready)
    (hs : l.Pairwise (fun a b => keyLe a b = true)) : l = order ready :=
  List.Perm.eq_of_pairwise (le := fun a b => keyLe a b = true)
    (fun a b _ _ h1 h2 => keyLe_antisymm a b h1 h2) hs (c06_exec_sorted ready)
    (hp.trans (c06_exec_perm ready).symm)

/-- Reading of the sort key in the words of the property. -/
theorem c06_order_reading (ready : List Ready) :
    (order ready).Pairwise (fun a b =>
      a.priority < b.priority ∨
      (a.priority = b.priority ∧ (a.dueAt < b.dueAt ∨ (a.dueAt = b.dueAt ∧ a.index ≤ b.index)))) := by
  refine (c06_exec_sorted ready).imp ?_
  intro a b h
  unfold keyLe at h
  simpa only [Bool.or_eq_true, Bool.and_eq_true, decide_eq_true_eq, beq_iff_eq] using h

/-- Sum of the missed activations detected in cycles `0 .. k-1`. -/
def Spec.missedSum (sp : Spec) : Nat → Nat
  | 0 => 0
  | k + 1 => sp.missedSum k + sp.missedAt k

theorem c06_overruns_closed_form (sp : Spec) (k : Nat) :
    sp.overrunsBefore k = min (sp.missedSum k) u64Max := by
  induction k with
  | zero => simp [Spec.overrunsBefore, Spec.missedSum]
  | succ k ih =>
    simp only [Spec.overrunsBefore, Spec.missedSum, ih]
    omega

/-- `lastP k` is the clock of the latest periodic activation before cycle `k`. -/
theorem c06_lastP_latest (sp : Spec) (k : Nat) :
    (∃ j, j < k ∧ sp.periodicAt j = true ∧ sp.lastP k = sp.t j ∧
        ∀ i, j < i → i < k → sp.periodicAt i = false) ∨
    ((∀ j, j < k → sp.periodicAt j = false) ∧ sp.lastP k = sp.t0) := by
  induction k with
  | zero => right; exact ⟨fun j h => absurd h (Nat.not_lt_zero j), rfl⟩
  | succ k ih =>
    by_cases hp : sp.periodicAt k = true
    · left
      refine ⟨k, Nat.lt_succ_self k, hp, ?_, fun i h1 h2 => by omega⟩
      have : (decide (sp.iv > 0) && !sp.s k && decide (sp.t k - sp.lastP k ≥ sp.iv)) = true := hp
      simp only [Spec.lastP, this, if_true]
    · have hp' : sp.periodicAt k = false := by simpa using hp
      have hl : sp.lastP (k + 1) = sp.lastP k := by
        have : (decide (sp.iv > 0) && !sp.s k && decide (sp.t k - sp.lastP k ≥ sp.iv)) = false := hp'
        simp only [Spec.lastP, this]; simp
      rcases ih with ⟨j, hj, hpj, hlj, hno⟩ | ⟨hno, hl0⟩
      · left
        refine ⟨j, by omega, hpj, by rw [hl, hlj], ?_⟩
        intro i h1 h2
        by_cases hik : i = k
        · subst hik; exact hp'
        · exact hno i h1 (by omega)
      · right
        refine ⟨?_, by rw [hl, hl0]⟩
        intro j hj
        by_cases hjk : j = k
        · subst hjk; exact hp'
        · exact hno j (by omega)

/-- The number of missed activations: whole intervals elapsed minus the one that is run now. -/
theorem c06_missed_formula (sp : Spec) (k : Nat) (hp : sp.periodicAt k = true) :
    (sp.missedAt k : Int) = (sp.t k - sp.lastP k) / sp.iv - 1 := by
  have h : (decide (sp.iv > 0) && !sp.s k && decide (sp.t k - sp.lastP k ≥ sp.iv)) = true := hp
  simp only [Bool.and_eq_true, decide_eq_true_eq] at h
  obtain ⟨⟨hiv, _⟩, hge⟩ := h
  have h1 : (sp.t k - sp.lastP k) / sp.iv ≥ 1 := by
    have := Int.ediv_le_ediv hiv hge
    rwa [Int.ediv_self (by omega)] at this
  simp only [Spec.missedAt, hp, if_true]
  split <;> omega

/-- The whole-cycle task sequence is determined by the due set alone. -/
theorem c06_cycle_tasks_unique (tasks : List Task) (n : Nat) (sts : List TState) (sv : Nat → Bool)
    (now : Int) (l : List Ready) (hp : l.Perm (collect tasks sts sv now).2)
    (hs : l.Pairwise (fun a b => keyLe a b = true)) :
    (cycle tasks n sts sv now).2.tasks = l.map (·.index) := by
  rw [c06_order_unique _ l hp hs]; rfl

/-- Missed activations are counted, not replayed: after a periodic activation in cycle `k` the
next periodic activation needs a full interval from the clock of cycle `k`, however far the
clock had jumped before. -/
theorem c06_not_replayed (sp : Spec) (k : Nat) (h1 : sp.periodicAt k = true)
    (h2 : sp.periodicAt (k + 1) = true) : sp.t (k + 1) - sp.t k ≥ sp.iv := by
  have h1' : (decide (sp.iv > 0) && !sp.s k && decide (sp.t k - sp.lastP k ≥ sp.iv)) = true := h1
  have hl : sp.lastP (k + 1) = sp.t k := by simp only [Spec.lastP, h1', if_true]
  have h2' : (decide (sp.iv > 0) && !sp.s (k + 1) &&
      decide (sp.t (k + 1) - sp.lastP (k + 1) ≥ sp.iv)) = true := h2
  rw [hl] at h2'
  simp only [Bool.and_eq_true, decide_eq_true_eq] at h2'
  exact h2'.2

/-- Under the timeline hypothesis the saturating addition in the due time never saturates: a
periodic activation's due time is exactly `last periodic activation + INTERVAL`, and no due time
(periodic or event) lies in the future of the cycle's clock. -/
theorem c06_due_time_exact (sp : Spec) (h : sp.TimesOk) (k : Nat) :
    (sp.periodicAt k = true → sat64 (sp.lastP k + sp.iv) = sp.lastP k + sp.iv ∧
        sp.lastP k + sp.iv ≤ sp.t k) ∧
    sp.dueTime k ≤ sp.t k := by
  have hr := sp.lastP_range h k
  have ht := h.2 k
  have key : sp.periodicAt k = true → sat64 (sp.lastP k + sp.iv) = sp.lastP k + sp.iv ∧
      sp.lastP k + sp.iv ≤ sp.t k := by
    intro hp
    have hp' : (decide (sp.iv > 0) && !sp.s k && decide (sp.t k - sp.lastP k ≥ sp.iv)) = true := hp
    simp only [Bool.and_eq_true, decide_eq_true_eq] at hp'
    obtain ⟨⟨hiv, _⟩, hge⟩ := hp'
    refine ⟨sat64_id (by unfold i64Min; omega) (by omega), by omega⟩
  refine ⟨key, ?_⟩
  unfold Spec.dueTime
  by_cases hp : sp.periodicAt k = true
  · obtain ⟨h1, h2⟩ := key hp
    simp only [hp, if_true, h1]
    split
    · split <;> omega
    · omega
  · simp [hp]

/-- **Which programs run in a cycle**: exactly the programs of the tasks executed in that cycle
and the programs that belong to no task. -/
theorem c06_program_runs_iff (tasks : List Task) (n : Nat) (sts : List TState) (sv : Nat → Bool)
    (now : Int) (p : Nat) :
    p ∈ (cycle tasks n sts sv now).2.programs ↔
      (∃ i ∈ (cycle tasks n sts sv now).2.tasks, p ∈ programsOf tasks i) ∨
      (p < n ∧ p ∉ scheduled tasks) := by
  simp only [cycle, List.mem_append, List.mem_flatMap, List.mem_map, background, List.mem_filter,
    List.mem_range, Bool.not_eq_true', List.contains_eq_mem, decide_eq_false_iff_not]
  constructor
  · rintro (⟨r, hr, hp⟩ | h)
    · exact .inl ⟨r.index, ⟨r, hr, rfl⟩, hp⟩
    · exact .inr h
  · rintro (⟨i, ⟨r, hr, rfl⟩, hp⟩ | h)
    · exact .inl ⟨r, hr, hp⟩
    · exact .inr h

/-- A program without a task runs in **every** cycle, whatever the clock and the SINGLE
variables do. -/
theorem c06_background_every_cycle (tasks : List Task) (n : Nat) (sts : List TState)
    (sv : Nat → Bool) (now : Int) (p : Nat) (hp : p < n) (hns : p ∉ scheduled tasks) :
    p ∈ (cycle tasks n sts sv now).2.programs :=
  (c06_program_runs_iff tasks n sts sv now p).2 (.inr ⟨hp, hns⟩)

/-- A program that belongs to a task does not run in a cycle in which none of its tasks is
executed. -/
theorem c06_task_program_waits (tasks : List Task) (n : Nat) (sts : List TState)
    (sv : Nat → Bool) (now : Int) (p : Nat) (hs : p ∈ scheduled tasks)
    (hno : ∀ i ∈ (cycle tasks n sts sv now).2.tasks, p ∉ programsOf tasks i) :
    p ∉ (cycle tasks n sts sv now).2.programs := by
  rw [c06_program_runs_iff]
  rintro (⟨i, hi, hp⟩ | ⟨_, h⟩)
  · exact hno i hi hp
  · exact h hs

/-- Non-vacuity of `c06_order_unique` / `c06_order_reading`: equal priorities are ordered by due
time, equal due times by declaration index, whatever the order of the ready list. -/
example :
    (order [⟨2, 5, 1⟩, ⟨0, 7, 1⟩, ⟨1, 5, 1⟩, ⟨3, 9, 0⟩]).map (·.index) = [3, 1, 2, 0] := by
  rw [← c06_order_unique _ [⟨3, 9, 0⟩, ⟨1, 5, 1⟩, ⟨2, 5, 1⟩, ⟨0, 7, 1⟩] (by decide) (by decide)]
  rfl

end TrustVerif.C06
