import TrustVerif.Lemmas.C07

/-!
# C07 — process image: inputs latched once per cycle, outputs published once at the end

Property theorems only.  `Model/C07.lean` mirrors `IoInterface::{read, write, read_inputs,
write_outputs}`, the coercions, `read_cycle_inputs` / `write_cycle_outputs` / `execute_cycle` and the
partial-access functions.  Program bodies are arbitrary functions on the variable storage, drivers
arbitrary scripts, binding lists, images and cycles arbitrary: nothing below is bounded.
-/
namespace TrustVerif.C07

/-! ## Direct addresses: locality, read-after-write, little-endian, bit n of byte b -/

/-- **Write frame (locality of a write).**  A successful write to a flat address changes nothing but
the bytes of its span in its own area: the other two images and the hierarchical map are untouched,
every byte outside `[byte, byte+size)` reads as before, the image grows exactly to cover the span,
and for an `X` address the other seven bits of the byte keep their values.
(Clause "writing a direct address touches only the bits/bytes that address denotes".) -/
theorem c07_write_frame (io io' : Io) (a : Addr) (v : Value) (hf : a.flat = true)
    (h : write io a v = .ok io') :
    (∀ ar, ar ≠ a.area → io'.area ar = io.area ar) ∧
    io'.hier = io.hier ∧
    (∀ j, a.inSpan j = false → getB (io'.area a.area) j = getB (io.area a.area) j) ∧
    (io'.area a.area).length = max (io.area a.area).length (a.byte + a.size.bytes) ∧
    (a.size = .bit → io.WF → ∀ m, m < 8 → m ≠ a.bit →
      bitOf (getB (io'.area a.area) a.byte) m = bitOf (getB (io.area a.area) a.byte) m) := by
  by_cases hs : a.size = .bit
  · rw [write_bit io a v hf hs] at h
    cases v with
    | bool flag =>
      simp only at h
      split at h
      · cases h
      · rename_i hbit
        injection h with h
        subst h
        refine ⟨fun ar har => area_setArea_ne _ _ _ _ har, hier_setArea _ _ _, ?_, ?_, ?_⟩
        · intro j hj
          simp only [area_setArea_same]
          have : j ≠ a.byte := by
            simp [Addr.inSpan, hs, Size.bytes] at hj
            omega
          rw [getB_set_ne _ _ _ _ this, getB_ensureLen]
        · simp [length_ensureLen, hs, Size.bytes]
        · intro _ hwf m hm hne
          simp only [area_setArea_same]
          rw [getB_set_eq _ _ _ (lt_length_ensureLen _ _), getB_ensureLen]
          have hb := getB_lt _ (hwf a.area) a.byte
          have := bit_table2 _ hb a.bit (by omega) m hm
          rcases this with h1 | h1
          · exact absurd h1 hne
          · cases flag <;> simp [h1.1, h1.2]
    | _ => simp at h
  · rw [write_nonbit io a v hf hs] at h
    cases hb : storedBytes a.size v with
    | none => simp [hb] at h
    | some bs =>
      simp only [hb] at h
      injection h with h
      subst h
      obtain ⟨hlen, hne⟩ := storedBytes_length _ _ _ hb
      refine ⟨fun ar har => area_setArea_ne _ _ _ _ har, hier_setArea _ _ _, ?_, ?_, fun h => absurd h hs⟩
      · intro j hj
        simp only [area_setArea_same]
        apply getB_putBytes_outside
        simp [Addr.inSpan] at hj
        omega
      · simp only [area_setArea_same]
        rw [length_putBytes _ _ _ hne, hlen]

/-- **Read-after-write.**  On an address as the parser produces them (flat, bit index 0..7) a
successful write of a value in the range of its Rust type is read back unchanged. -/
theorem c07_read_write (io io' : Io) (a : Addr) (v : Value) (hv : a.valid = true) (hwf : v.WF)
    (hio : io.WF) (h : write io a v = .ok io') : read io' a = .ok v := by
  have hf : a.flat = true := by simp [Addr.valid] at hv; exact hv.1
  by_cases hs : a.size = .bit
  · have hbit : ¬ a.bit > 7 := by simp [Addr.valid, hs] at hv; omega
    rw [write_bit io a v hf hs] at h
    cases v with
    | bool flag =>
      simp only [hbit, if_false] at h
      injection h with h
      subst h
      rw [read_bit _ a hf hs]
      simp only [hbit, if_false, area_setArea_same]
      rw [getB_set_eq _ _ _ (lt_length_ensureLen _ _), getB_ensureLen]
      have hb := getB_lt _ (hio a.area) a.byte
      have := bit_table1 _ hb a.bit (by omega)
      cases flag <;> simp [this.1, this.2.1]
    | _ => simp at h
  · rw [write_nonbit io a v hf hs] at h
    cases hb : storedBytes a.size v with
    | none => simp [hb] at h
    | some bs =>
      simp only [hb] at h
      injection h with h
      subst h
      obtain ⟨hlen, hne⟩ := storedBytes_length _ _ _ hb
      rw [read_nonbit _ a hf hs]
      simp only [area_setArea_same]
      rw [← hlen, readSpan_putBytes _ _ _ hne, storedBytes_fromLe _ _ _ hb hwf]

/-- **Read locality.**  The value read at a flat address depends only on the bytes of its span (for
an `X` address: only on the byte it names — and by `c07_read_bit` only on one bit of it); the other
areas, the rest of the image and the image length are irrelevant (missing bytes read as 0).
(Clause "reading a direct address touches only the bits/bytes that address denotes".) -/
theorem c07_read_local (io io' : Io) (a : Addr) (hf : a.flat = true)
    (h : ∀ j, a.inSpan j = true → getB (io'.area a.area) j = getB (io.area a.area) j) :
    read io' a = read io a := by
  by_cases hs : a.size = .bit
  · rw [read_bit _ a hf hs, read_bit _ a hf hs, h a.byte (by simp [Addr.inSpan, hs, Size.bytes])]
  · rw [read_nonbit _ a hf hs, read_nonbit _ a hf hs]
    rw [readSpan_congr (io.area a.area) (io'.area a.area) a.size.bytes a.byte
      (fun j h1 h2 => h j (by simp [Addr.inSpan]; omega))]

/-- **Bit n of byte b.**  Reading `%aXb.n` yields bit `n` (weight `2^n`) of byte `b` of the image. -/
theorem c07_read_bit (io : Io) (a : Addr) (hv : a.valid = true) (hs : a.size = .bit) (hio : io.WF) :
    read io a = .ok (.bool (getB (io.area a.area) a.byte / 2 ^ a.bit % 2 == 1)) := by
  have hf : a.flat = true := by simp [Addr.valid] at hv; exact hv.1
  have hbit : ¬ a.bit > 7 := by simp [Addr.valid, hs] at hv; omega
  rw [read_bit _ a hf hs]
  simp only [hbit, if_false]
  have := bit_table1 _ (getB_lt _ (hio a.area) a.byte) a.bit (by omega)
  rw [this.2.2.2.2]

/-- **Little-endian reads.**  A `B/W/D/L` read yields `Σ byte[b+i]·256^i` over its span. -/
theorem c07_read_le (io : Io) (a : Addr) (hf : a.flat = true) :
    let g := fun i => getB (io.area a.area) (a.byte + i)
    (a.size = .byte → read io a = .ok (.byte (g 0))) ∧
    (a.size = .word → read io a = .ok (.word (g 0 + 256 * g 1))) ∧
    (a.size = .dword → read io a = .ok (.dword (g 0 + 256 * (g 1 + 256 * (g 2 + 256 * g 3))))) ∧
    (a.size = .lword → read io a = .ok (.lword (g 0 + 256 * (g 1 + 256 * (g 2 + 256 * (g 3 + 256 *
      (g 4 + 256 * (g 5 + 256 * (g 6 + 256 * g 7))))))))) := by
  refine ⟨?_, ?_, ?_, ?_⟩ <;> intro hs <;>
    rw [read_nonbit _ a hf (by rw [hs]; decide), hs] <;>
    simp [Size.mk, Size.bytes, readSpan, fromLe, Nat.add_assoc]

/-- **Little-endian writes.**  After writing an in-range `B/W/D/L` value with payload `x`, byte
`b + i` of the image is `x / 256^i % 256` for every `i` of the span. -/
theorem c07_write_le (io io' : Io) (a : Addr) (v : Value) (hf : a.flat = true) (hs : a.size ≠ .bit)
    (hwf : v.WF) (h : write io a v = .ok io') :
    ∃ x, v = a.size.mk x ∧ ∀ i, i < a.size.bytes →
      getB (io'.area a.area) (a.byte + i) = x / 256 ^ i % 256 := by
  rw [write_nonbit io a v hf hs] at h
  cases hb : storedBytes a.size v with
  | none => simp [hb] at h
  | some bs =>
    simp only [hb] at h
    injection h with h
    subst h
    obtain ⟨hlen, hne⟩ := storedBytes_length _ _ _ hb
    cases hsz : a.size <;> cases v <;> simp [hsz, storedBytes] at hb
    all_goals subst hb
    all_goals simp only [Value.WF] at hwf
    all_goals refine ⟨_, rfl, ?_⟩
    all_goals intro i hi
    all_goals simp only [area_setArea_same]
    · simp only [Size.bytes] at hi
      have : i = 0 := by omega
      subst this
      rw [getB_putBytes_inside _ _ _ 0 (by simp) (by simp)]
      simp; omega
    all_goals rw [getB_putBytes_inside _ _ _ i (toLe_ne_nil _ _ (by omega)) (by rw [length_toLe]; exact hi)]
    all_goals exact toLe_getD _ _ _ hi

/-- **Codec round trip.**  `from_le_bytes ∘ to_le_bytes` is the identity on `k`-byte values,
`to_le_bytes ∘ from_le_bytes` is the identity on `k` bytes, and byte `i` of the encoding is
`v / 256^i % 256`. -/
theorem c07_le (k v : Nat) (bs : List Nat) :
    (v < 256 ^ k → fromLe (toLe k v) = v) ∧
    ((∀ b ∈ bs, b < 256) → toLe bs.length (fromLe bs) = bs) ∧
    (∀ i, i < k → (toLe k v).getD i 0 = v / 256 ^ i % 256) ∧
    (toLe k v).length = k := by
  refine ⟨fun h => ?_, toLe_fromLe bs, toLe_getD k v, length_toLe k v⟩
  rw [fromLe_toLe, Nat.mod_eq_of_lt h]

/-- Writes keep every image byte a byte. -/
theorem c07_write_wf (io io' : Io) (a : Addr) (v : Value) (hf : a.flat = true) (hwf : v.WF)
    (hio : io.WF) (hbit : a.size = .bit → a.bit ≤ 7) (h : write io a v = .ok io') : io'.WF := by
  intro ar
  by_cases har : ar = a.area
  · subst har
    by_cases hs : a.size = .bit
    · rw [write_bit io a v hf hs] at h
      cases v with
      | bool flag =>
        have hb7 : ¬ a.bit > 7 := by have := hbit hs; omega
        simp only [hb7, if_false] at h
        injection h with h
        subst h
        simp only [area_setArea_same]
        apply mem_set_lt _ _ _ (ensureLen_lt _ _ (hio a.area))
        rw [getB_ensureLen]
        have := bit_table1 _ (getB_lt _ (hio a.area) a.byte) a.bit (by omega)
        cases flag <;> simp [this.2.2.1, this.2.2.2.1]
      | _ => simp at h
    · rw [write_nonbit io a v hf hs] at h
      cases hb : storedBytes a.size v with
      | none => simp [hb] at h
      | some bs =>
        simp only [hb] at h
        injection h with h
        subst h
        simp only [area_setArea_same]
        exact putBytes_lt _ _ _ (hio a.area) (storedBytes_lt _ _ _ hb hwf)
  · have := (c07_write_frame io io' a v hf h).1 ar har
    rw [this]
    exact hio ar

/-- **Disjoint addresses do not interfere.**  A write to a flat address leaves the value read at
any flat address that denotes disjoint storage (another area, a disjoint byte span, or another bit
of the same byte) unchanged — so overlapping and adjacent bindings interact only where their spans
intersect. -/
theorem c07_write_disjoint_read (io io' : Io) (a b : Addr) (v : Value) (ha : a.flat = true)
    (hb : b.valid = true) (hio : io.WF) (hd : a.disjoint b = true) (h : write io a v = .ok io') :
    read io' b = read io b := by
  have hbf : b.flat = true := by simp [Addr.valid] at hb; exact hb.1
  obtain ⟨h1, _, h3, _, h5⟩ := c07_write_frame io io' a v ha h
  by_cases har : b.area = a.area
  · by_cases hsp : a.byte + a.size.bytes ≤ b.byte ∨ b.byte + b.size.bytes ≤ a.byte
    · apply c07_read_local _ _ _ hbf
      intro j hj
      rw [har]
      apply h3
      simp [Addr.inSpan] at hj ⊢
      omega
    · -- two bits of the same byte
      have hd' : a.size = .bit ∧ b.size = .bit ∧ a.byte = b.byte ∧ a.bit ≠ b.bit := by
        simp [Addr.disjoint, har] at hd
        rcases hd with (hd | hd) | hd
        · omega
        · omega
        · exact ⟨hd.1.1.1, hd.1.1.2, hd.1.2, hd.2⟩
      obtain ⟨hsa, hsb, hbyte, hbits⟩ := hd'
      have hb7 : ¬ b.bit > 7 := by simp [Addr.valid, hsb] at hb; omega
      rw [read_bit _ b hbf hsb, read_bit _ b hbf hsb]
      simp only [hb7, if_false]
      rw [har, ← hbyte, h5 hsa hio b.bit (by omega) (Ne.symm hbits)]
  · apply c07_read_local _ _ _ hbf
    intro j _
    rw [h1 b.area har]

/-- **Hierarchical addresses live in their own map.**  A write to a hierarchical address
(`path.len() > 1`) stores the value under its key, touches no image byte, and is read back. -/
theorem c07_hier (io : Io) (a : Addr) (v : Value) (hw : a.wildcard = false) (hp : a.path.length > 1) :
    ∃ io', write io a v = .ok io' ∧ io'.inputs = io.inputs ∧ io'.outputs = io.outputs ∧
      io'.memory = io.memory ∧ read io' a = .ok v := by
  refine ⟨{ io with hier := hinsert io.hier a.key v }, ?_, rfl, rfl, rfl, ?_⟩
  · simp [write, hw, hp]
  · simp only [read, hw, hp, if_true, Bool.false_eq_true, if_false]
    have : ∀ m : List (HKey × Value), hlookup (hinsert m a.key v) a.key = some v := by
      intro m
      induction m with
      | nil => simp [hinsert, hlookup]
      | cons p m ih =>
        obtain ⟨k', v'⟩ := p
        by_cases hk : k' = a.key
        · simp [hinsert, hlookup, hk]
        · simp [hinsert, hlookup, hk, ih]
    rw [this]

/-- Wildcard addresses (`%I*`) are refused by both operations. -/
theorem c07_wildcard (io : Io) (a : Addr) (v : Value) (hw : a.wildcard = true) :
    read io a = .error .invalidIoAddress ∧ write io a v = .error .invalidIoAddress := by
  simp [read, write, hw]

/-- Non-vacuity of the address hypotheses: `%QW1` on a 1-byte image is valid, the write succeeds,
grows the image to 3 bytes, stores `0x1234` little-endian and reads back. -/
example :
    let a : Addr := { area := .output, size := .word, byte := 1, bit := 0, path := [1], wildcard := false }
    let io : Io := { outputs := [0xAA] }
    a.valid = true ∧ (Value.word 0x1234).WF ∧
    write io a (.word 0x1234) = .ok { outputs := [0xAA, 0x34, 0x12] } ∧
    read { outputs := [0xAA, 0x34, 0x12] } a = .ok (.word 0x1234) := by
  refine ⟨by decide, by simp [Value.WF], by rfl, by rfl⟩

/-- Non-vacuity for bits: `%IX0.3` and `%IX0.5` are disjoint; setting bit 3 of `0b0010_0000`. -/
example :
    let a : Addr := { area := .input, size := .bit, byte := 0, bit := 3, path := [0], wildcard := false }
    let b : Addr := { a with bit := 5 }
    a.disjoint b = true ∧ write { inputs := [0x20] } a (.bool true) = .ok { inputs := [0x28] } ∧
    read { inputs := [0x28] } b = .ok (.bool true) := by
  refine ⟨by decide, by rfl, by rfl⟩

end TrustVerif.C07
