import TrustVerif.Lemmas.C07

/-!
# C07 — process image: inputs latched once per cycle, outputs published once at the end

Property theorems only.  `Model/C07.lean` mirrors `IoInterface::{read, write, read_inputs,
write_outputs}`, the coercions, `read_cycle_inputs` / `write_cycle_outputs` / `execute_cycle` and the
partial-access functions.  Program bodies are arbitrary functions on the variable storage, drivers
arbitrary scripts, binding lists, images and cycles arbitrary: nothing below is bounded.
-/
namespace TrustVerif.C07

/-! ## Direct addresses: locality, read-after-write, little-endian, bit n of byte b -/

/-- **Write frame (locality of a write).**  A successful write to a flat address changes nothing but
the bytes of its span in its own area: the other two images and the hierarchical map are untouched,
every byte outside `[byte, byte+size)` reads as before, the image grows exactly to cover the span,
and for an `X` address the other seven bits of the byte keep their values.
(Clause "writing a direct address touches only the bits/bytes that address denotes".) -/
theorem c07_write_frame (io io' : Io) (a : Addr) (v : Value) (hf : a.flat = true)
    (h : write io a v = .ok io') :
    (∀ ar, ar ≠ a.area → io'.area ar = io.area ar) ∧
    io'.hier = io.hier ∧
    (∀ j, a.inSpan j = false → getB (io'.area a.area) j = getB (io.area a.area) j) ∧
    (io'.area a.area).length = max (io.area a.area).length (a.byte + a.size.bytes) ∧
    (a.size = .bit → ∀ m, m < 8 → m ≠ a.bit →
      bitOf (getB (io'.area a.area) a.byte) m = bitOf (getB (io.area a.area) a.byte) m) :=
  write_frame io io' a v hf h

/-- **Read-after-write.**  On an address as the parser produces them (flat, bit index 0..7) a
successful write of a value in the range of its Rust type is read back unchanged. -/
theorem c07_read_write (io io' : Io) (a : Addr) (v : Value) (hv : a.valid = true) (hwf : v.WF)
    (h : write io a v = .ok io') : read io' a = .ok v := by
  have hf : a.flat = true := by simp [Addr.valid] at hv; exact hv.1
  by_cases hs : a.size = .bit
  · have hbit : ¬ a.bit > 7 := by simp [Addr.valid, hs] at hv; omega
    rw [write_bit io a v hf hs] at h
    cases v with
    | bool flag =>
      simp only [hbit, if_false] at h
      injection h with h
      subst h
      rw [read_bit _ a hf hs]
      simp only [hbit, if_false, area_setArea_same]
      rw [getB_set_eq _ _ _ (lt_length_ensureLen _ _), getB_ensureLen]
      cases flag
      · simp [bitOf_clearBit_self _ _ (show a.bit < 8 by omega)]
      · simp [bitOf_setBit_self]
    | _ => simp at h
  · rw [write_nonbit io a v hf hs] at h
    cases hb : storedBytes a.size v with
    | none => simp [hb] at h
    | some bs =>
      simp only [hb] at h
      injection h with h
      subst h
      obtain ⟨hlen, hne⟩ := storedBytes_length _ _ _ hb
      rw [read_nonbit _ a hf hs]
      simp only [area_setArea_same]
      rw [← hlen, readSpan_putBytes _ _ _ hne, storedBytes_fromLe _ _ _ hb hwf]

/-- **Read locality.**  The value read at a flat address depends only on the bytes of its span (for
an `X` address: only on the byte it names — and by `c07_read_bit` only on one bit of it); the other
areas, the rest of the image and the image length are irrelevant (missing bytes read as 0).
(Clause "reading a direct address touches only the bits/bytes that address denotes".) -/
theorem c07_read_local (io io' : Io) (a : Addr) (hf : a.flat = true)
    (h : ∀ j, a.inSpan j = true → getB (io'.area a.area) j = getB (io.area a.area) j) :
    read io' a = read io a :=
  read_local io io' a hf h

/-- **Bit n of byte b.**  Reading `%aXb.n` yields bit `n` (weight `2^n`) of byte `b` of the image. -/
theorem c07_read_bit (io : Io) (a : Addr) (hv : a.valid = true) (hs : a.size = .bit) :
    read io a = .ok (.bool (getB (io.area a.area) a.byte / 2 ^ a.bit % 2 == 1)) := by
  have hf : a.flat = true := by simp [Addr.valid] at hv; exact hv.1
  have hbit : ¬ a.bit > 7 := by simp [Addr.valid, hs] at hv; omega
  rw [read_bit _ a hf hs]
  simp only [hbit, if_false]
  rw [bitOf_eq_div]

/-- **Little-endian reads.**  A `B/W/D/L` read yields `Σ byte[b+i]·256^i` over its span. -/
theorem c07_read_le (io : Io) (a : Addr) (hf : a.flat = true) :
    let g := fun i => getB (io.area a.area) (a.byte + i)
    (a.size = .byte → read io a = .ok (.byte (g 0))) ∧
    (a.size = .word → read io a = .ok (.word (g 0 + 256 * g 1))) ∧
    (a.size = .dword → read io a = .ok (.dword (g 0 + 256 * (g 1 + 256 * (g 2 + 256 * g 3))))) ∧
    (a.size = .lword → read io a = .ok (.lword (g 0 + 256 * (g 1 + 256 * (g 2 + 256 * (g 3 + 256 *
      (g 4 + 256 * (g 5 + 256 * (g 6 + 256 * g 7))))))))) := by
  refine ⟨?_, ?_, ?_, ?_⟩ <;> intro hs <;>
    rw [read_nonbit _ a hf (by rw [hs]; decide), hs] <;>
    simp [Size.mk, Size.bytes, readSpan, fromLe, Nat.add_assoc]

/-- **Little-endian writes.**  After writing an in-range `B/W/D/L` value with payload `x`, byte
`b + i` of the image is `x / 256^i % 256` for every `i` of the span. -/
theorem c07_write_le (io io' : Io) (a : Addr) (v : Value) (hf : a.flat = true) (hs : a.size ≠ .bit)
    (hwf : v.WF) (h : write io a v = .ok io') :
    ∃ x, v = a.size.mk x ∧ ∀ i, i < a.size.bytes →
      getB (io'.area a.area) (a.byte + i) = x / 256 ^ i % 256 := by
  rw [write_nonbit io a v hf hs] at h
  cases hb : storedBytes a.size v with
  | none => simp [hb] at h
  | some bs =>
    simp only [hb] at h
    injection h with h
    subst h
    obtain ⟨hlen, hne⟩ := storedBytes_length _ _ _ hb
    cases hsz : a.size <;> cases v <;> simp [hsz, storedBytes] at hb
    all_goals subst hb
    all_goals simp only [Value.WF] at hwf
    all_goals refine ⟨_, rfl, ?_⟩
    all_goals intro i hi
    all_goals simp only [area_setArea_same]
    · simp only [Size.bytes] at hi
      have : i = 0 := by omega
      subst this
      rw [getB_putBytes_inside _ _ _ 0 (by simp) (by simp)]
      simp; omega
    all_goals rw [getB_putBytes_inside _ _ _ i (toLe_ne_nil _ _ (by omega)) (by rw [length_toLe]; exact hi)]
    all_goals exact toLe_getD _ _ _ hi

/-- **Codec round trip.**  `from_le_bytes ∘ to_le_bytes` is the identity on `k`-byte values,
`to_le_bytes ∘ from_le_bytes` is the identity on `k` bytes, and byte `i` of the encoding is
`v / 256^i % 256`. -/
theorem c07_le (k v : Nat) (bs : List Nat) :
    (v < 256 ^ k → fromLe (toLe k v) = v) ∧
    ((∀ b ∈ bs, b < 256) → toLe bs.length (fromLe bs) = bs) ∧
    (∀ i, i < k → (toLe k v).getD i 0 = v / 256 ^ i % 256) ∧
    (toLe k v).length = k := by
  refine ⟨fun h => ?_, toLe_fromLe bs, toLe_getD k v, length_toLe k v⟩
  rw [fromLe_toLe, Nat.mod_eq_of_lt h]

/-- Writes keep every image byte a byte. -/
theorem c07_write_wf (io io' : Io) (a : Addr) (v : Value) (hf : a.flat = true) (hwf : v.WF)
    (hio : io.WF) (hbit : a.size = .bit → a.bit ≤ 7) (h : write io a v = .ok io') : io'.WF := by
  intro ar
  by_cases har : ar = a.area
  · subst har
    by_cases hs : a.size = .bit
    · rw [write_bit io a v hf hs] at h
      cases v with
      | bool flag =>
        have hb7 : ¬ a.bit > 7 := by have := hbit hs; omega
        simp only [hb7, if_false] at h
        injection h with h
        subst h
        simp only [area_setArea_same]
        apply mem_set_lt _ _ _ (ensureLen_lt _ _ (hio a.area))
        rw [getB_ensureLen]
        have := bit_table1 _ (getB_lt _ (hio a.area) a.byte) a.bit (by omega)
        cases flag <;> simp [this.2.2.1, this.2.2.2.1]
      | _ => simp at h
    · rw [write_nonbit io a v hf hs] at h
      cases hb : storedBytes a.size v with
      | none => simp [hb] at h
      | some bs =>
        simp only [hb] at h
        injection h with h
        subst h
        simp only [area_setArea_same]
        exact putBytes_lt _ _ _ (hio a.area) (storedBytes_lt _ _ _ hb hwf)
  · have := (c07_write_frame io io' a v hf h).1 ar har
    rw [this]
    exact hio ar

/-- **Disjoint addresses do not interfere.**  A write to a flat address leaves the value read at
any flat address that denotes disjoint storage (another area, a disjoint byte span, or another bit
of the same byte) unchanged — so overlapping and adjacent bindings interact only where their spans
intersect. -/
theorem c07_write_disjoint_read (io io' : Io) (a b : Addr) (v : Value) (ha : a.flat = true)
    (hb : b.valid = true) (hd : a.disjoint b = true) (h : write io a v = .ok io') :
    read io' b = read io b :=
  write_disjoint_read io io' a b v ha hb hd h

/-- **Hierarchical addresses live in their own map.**  A write to a hierarchical address
(`path.len() > 1`) stores the value under its key, touches no image byte, and is read back. -/
theorem c07_hier (io : Io) (a : Addr) (v : Value) (hw : a.wildcard = false) (hp : a.path.length > 1) :
    ∃ io', write io a v = .ok io' ∧ io'.inputs = io.inputs ∧ io'.outputs = io.outputs ∧
      io'.memory = io.memory ∧ read io' a = .ok v := by
  refine ⟨{ io with hier := hinsert io.hier a.key v }, ?_, rfl, rfl, rfl, ?_⟩
  · simp [write, hw, hp]
  · simp only [read, hw, hp, if_true, Bool.false_eq_true, if_false]
    have : ∀ m : List (HKey × Value), hlookup (hinsert m a.key v) a.key = some v := by
      intro m
      induction m with
      | nil => simp [hinsert, hlookup]
      | cons p m ih =>
        obtain ⟨k', v'⟩ := p
        by_cases hk : k' = a.key
        · simp [hinsert, hlookup, hk]
        · simp [hinsert, hlookup, hk, ih]
    rw [this]

/-- Wildcard addresses (`%I*`) are refused by both operations. -/
theorem c07_wildcard (io : Io) (a : Addr) (v : Value) (hw : a.wildcard = true) :
    read io a = .error .invalidIoAddress ∧ write io a v = .error .invalidIoAddress := by
  simp [read, write, hw]

/-- Non-vacuity of the address hypotheses: `%QW1` on a 1-byte image is valid, the write succeeds,
grows the image to 3 bytes, stores `0x1234` little-endian and reads back. -/
example :
    let a : Addr := { area := .output, size := .word, byte := 1, bit := 0, path := [1], wildcard := false }
    let io : Io := { outputs := [0xAA] }
    a.valid = true ∧ (Value.word 0x1234).WF ∧
    write io a (.word 0x1234) = .ok { outputs := [0xAA, 0x34, 0x12] } ∧
    read { outputs := [0xAA, 0x34, 0x12] } a = .ok (.word 0x1234) := by
  refine ⟨by decide, by simp [Value.WF], by rfl, by rfl⟩

/-- Non-vacuity for bits: `%IX0.3` and `%IX0.5` are disjoint; setting bit 3 of `0b0010_0000`. -/
example :
    let a : Addr := { area := .input, size := .bit, byte := 0, bit := 3, path := [0], wildcard := false }
    let b : Addr := { a with bit := 5 }
    a.disjoint b = true ∧ write { inputs := [0x20] } a (.bool true) = .ok { inputs := [0x28] } ∧
    read { inputs := [0x28] } b = .ok (.bool true) := by
  refine ⟨by decide, by rfl, by rfl⟩


/-! ## Typed bindings: decode ∘ encode = id, latch, publish -/

/-- **Typed codec, encode then decode.**  For each of the 25 elementary types (the 17 bit, integer,
bit-string, character and real types and TIME/DATE/TOD/DT with their L-variants), an in-range value of
the type that the image can represent (`ioExact`: trivially true except for the 32-bit date/time types,
where the value must be a whole count that fits 32 bits) is encoded (`coerce_to_io`) into an in-range
I/O value of the type's size, and decoding (`coerce_from_io`) gives the value back (two's complement for
the signed types and the date/time counts, raw bits for REAL). -/
theorem c07_coerce_encode_decode (v : Value) (t : Ty) (sz : Size) (hty : v.hasTy t = true) (hwf : v.WF)
    (hex : v.ioExact) (hsz : expectedSize t = some sz) :
    ∃ w, coerceToIo v t sz = .ok w ∧ w.WF ∧ w.ioSize = some sz ∧ coerceFromIo w t = .ok v :=
  coerce_encode_decode v t sz hty hwf hex hsz

/-- **Typed codec, decode then encode.**  Every in-range I/O value of the type's size decodes to an
in-range, representable value of the type whose encoding is the I/O value again (the codec is a
bijection between the I/O values of the size and the representable values of the type). -/
theorem c07_coerce_decode_encode (w : Value) (t : Ty) (sz : Size) (hw : w.ioSize = some sz) (hwf : w.WF)
    (hsz : expectedSize t = some sz) :
    ∃ v, coerceFromIo w t = .ok v ∧ v.hasTy t = true ∧ v.WF ∧ v.ioExact ∧ coerceToIo v t sz = .ok w :=
  coerce_decode_encode w t sz hw hwf hsz

/-- Non-vacuity of the codec on the date/time types: `T#263ms` (263 000 000 ns) travels as the DWord
263, `T#-1ms` as `FFFFFFFF`, an LTIME as its nanoseconds; a TIME above 2^31-1 ms is `Overflow`, a value
of another kind `TypeMismatch`. -/
example :
    coerceToIo (.tick .time 263000000) (.tick .time) .dword = .ok (.dword 263) ∧
    coerceFromIo (.dword 263) (.tick .time) = .ok (.tick .time 263000000) ∧
    coerceToIo (.tick .time (-1000000)) (.tick .time) .dword = .ok (.dword 4294967295) ∧
    coerceFromIo (.dword 4294967295) (.tick .tod) = .ok (.tick .tod (-1)) ∧
    coerceToIo (.tick .ltime (-5)) (.tick .ltime) .lword = .ok (.lword 18446744073709551611) ∧
    coerceToIo (.tick .time 2147483648000000) (.tick .time) .dword = .error .overflow ∧
    coerceToIo (.tick .date 5) (.tick .time) .dword = .error .typeMismatch ∧
    (Value.tick .time 263000000).ioExact ∧ ¬ (Value.tick .date 4294967296).ioExact := by
  refine ⟨by rfl, by rfl, by rfl, by rfl, by rfl, by rfl, by rfl,
    Or.inr ⟨263, by decide, by decide, by decide⟩, ?_⟩
  rintro (h | ⟨c, h1, h2, h3⟩)
  · cases h
  · simp only [TKind.scale] at h1
    omega

/-- **Bound variable = decode(latched bytes).**  After a successful `read_inputs`, the variable of an
input/memory binding holds the decoding of what `read` yields at its address, provided no later
in-binding targets the same variable (the last one wins). -/
theorem c07_latch_value (io : Io) (pre post : List Binding) (b : Binding) (s s' : Store)
    (hin : b.isIn = true)
    (hlast : ∀ b' ∈ post, b'.isIn = true → b'.target.var ≠ b.target.var)
    (h : latch io (pre ++ b :: post) s = (s', none)) :
    ∃ v, latchValue io b = .ok v ∧ s' b.target.var = some v := by
  rw [latch_append] at h
  cases hp : latch io pre s with
  | mk s1 e1 =>
    cases e1 with
    | some e => simp [hp] at h
    | none =>
      simp only [hp] at h
      obtain ⟨v, hv, hrest⟩ := latch_cons_ok io b post s1 s' hin h
      refine ⟨v, hv, ?_⟩
      have := latch_frame io post b.target.var (s1.set b.target.var v) hlast
      rw [hrest] at this
      simp only at this
      rw [this]
      simp [Store.set]

/-- **The latch writes only bound variables.**  A variable that no input/memory binding targets keeps
its value through `read_inputs`, whether it succeeds or fails; the images are not an output of the
latch at all (`latch` returns a store). -/
theorem c07_latch_frame (io : Io) (bs : List Binding) (x : Nat) (s : Store)
    (h : ∀ b ∈ bs, b.isIn = true → b.target.var ≠ x) : (latch io bs s).1 x = s x :=
  latch_frame io bs x s h

/-- **Decoding of a well-typed binding.**  For a binding as the compiler produces them (`wellTyped`),
the latched value exists for every image, is an in-range representable value of the declared type, and
re-encodes to exactly the I/O value read at the address: the variable is `decode(bytes of the span)`. -/
theorem c07_latch_decode (io : Io) (b : Binding) (hwt : b.wellTyped = true) (hio : io.WF) :
    ∃ t w v, b.ty = some t ∧ read io b.addr = .ok w ∧ latchValue io b = .ok v ∧ v.hasTy t = true ∧ v.WF ∧
      v.ioExact ∧ coerceToIo v t b.addr.size = .ok w := by
  unfold Binding.wellTyped at hwt
  cases ht : b.ty with
  | none => simp [ht] at hwt
  | some t =>
    simp only [ht, Bool.and_eq_true, beq_iff_eq] at hwt
    obtain ⟨w, hr, hsz, hw⟩ := read_valid io b.addr hwt.2 hio
    obtain ⟨v, h1, h2, h3, h4, h5⟩ := coerce_decode_encode w t b.addr.size hsz hw hwt.1
    exact ⟨t, w, v, rfl, hr, by simp [latchValue, hr, ht, h1], h2, h3, h4, h5⟩

/-- **Published bytes = encode(final value).**  After a successful `write_outputs`, reading back the
address of an output/memory binding yields the value the binding published — the encoding of what
its variable held — provided no later binding of the list clashes with its span (otherwise the later
one wins on the shared bytes, see `c07_write_frame`). -/
theorem c07_collect_value (s : Store) (pre post : List Binding) (b : Binding) (io io' : Io)
    (hout : b.isOut = true) (hv : b.addr.valid = true)
    (hpost : ∀ b' ∈ post, b'.noClash b.addr = true)
    (hwf : ∀ v, publishValue s b = .ok v → v.WF)
    (h : collect s (pre ++ b :: post) io = (io', none)) :
    ∃ v, publishValue s b = .ok v ∧ read io' b.addr = .ok v := by
  rw [collect_append] at h
  cases hp : collect s pre io with
  | mk io1 e1 =>
    cases e1 with
    | some e => simp [hp] at h
    | none =>
      simp only [hp] at h
      obtain ⟨v, io2, hpv, hw, hrest⟩ := collect_cons_ok s b post io1 io' hout h
      refine ⟨v, hpv, ?_⟩
      have := collect_read_unchanged s b.addr hv post io2 hpost
      rw [hrest] at this
      simp only at this
      rw [this]
      exact c07_read_write io1 io2 b.addr v hv (hwf v hpv) hw

/-- **An enum is published as its numeric value.**  An enumerated variable is bound with its base
type `t`; when its numeric value `n` is a value of that type, `coerce_to_io` publishes exactly what an
integer variable of type `t` holding `n` publishes (`Value.plain t (enum n)` is that integer). -/
theorem c07_enum_publish (n : Int) (t : Ty) (sz : Size) (hty : ((Value.enum n).plain t).hasTy t = true)
    (hwf : ((Value.enum n).plain t).WF) :
    coerceToIo (.enum n) t sz = coerceToIo ((Value.enum n).plain t) t sz :=
  enum_publish n t sz hty hwf

/-- **Encoding of a well-typed binding.**  The published value of a variable that holds an in-range
representable value of its type — or an enum whose numeric value is one — exists, is an in-range I/O
value of the address size, and decodes back to the variable's value (for an enum: to the integer of
the base type with the enum's numeric value). -/
theorem c07_publish_encode (s : Store) (b : Binding) (hwt : b.wellTyped = true) (hh : b.holdsTyped s) :
    ∃ t v w, b.ty = some t ∧ s b.target.var = some v ∧ publishValue s b = .ok w ∧ w.WF ∧
      w.ioSize = some b.addr.size ∧ coerceFromIo w t = .ok (v.plain t) := by
  obtain ⟨v, t, ht, hs, hty, hwf, hex⟩ := hh
  unfold Binding.wellTyped at hwt
  simp only [ht, Bool.and_eq_true, beq_iff_eq] at hwt
  obtain ⟨w, h1, h2, h3, h4⟩ := coerce_encode_decode (v.plain t) t b.addr.size hty hwf hex hwt.1
  rw [← plain_publish v t b.addr.size hty hwf] at h1
  exact ⟨t, v, w, ht, hs, by simp [publishValue, hs, ht, h1], h2, h3, h4⟩

/-- `write_outputs` never modifies the input image, whether it succeeds or fails. -/
theorem c07_collect_inputs (s : Store) (bs : List Binding) (io : Io) :
    (collect s bs io).1.inputs = io.inputs :=
  collect_inputs s bs io

/-- **Binding sets of the compiler never fault.**  If every binding is as the compiler produces them
(`wellTyped`: `c07_expand_layout` shows that every accepted `AT` declaration yields such bindings — for
TIME/DATE/TOD/DT and their L-variants since the repair of C07-time-input), the images are well formed
and every reference target resolves, `read_inputs` succeeds; if moreover every out-bound variable holds
an in-range representable value of its type or an enum standing for one (C07-enum-output),
`write_outputs` succeeds. -/
theorem c07_bindings_total (bs : List Binding) (hwt : ∀ b ∈ bs, b.wellTyped = true) :
    (∀ (io : Io) (s : Store), io.WF → (∀ b ∈ bs, ∀ x, b.target = .ref x → (s x).isSome = true) →
      (latch io bs s).2 = none) ∧
    (∀ (io : Io) (s : Store), (∀ b ∈ bs, b.isOut = true → b.holdsTyped s) → (collect s bs io).2 = none) := by
  constructor
  · intro io s hio
    induction bs generalizing s with
    | nil => intro _; rfl
    | cons b bs ih =>
      intro href
      have hrest := fun b' hb' => hwt b' (List.mem_cons_of_mem _ hb')
      simp only [latch]
      split
      · exact ih hrest s (fun b' hb' => href b' (List.mem_cons_of_mem _ hb'))
      · obtain ⟨t, w, v, _, _, hlv, _⟩ := c07_latch_decode io b (hwt b (by simp)) hio
        simp only [hlv]
        have hkeep : ∀ y, ∀ b' ∈ bs, ∀ x, b'.target = .ref x → ((s.set y v) x).isSome = true := by
          intro y b' hb' x hx
          by_cases hxy : x = y
          · simp [Store.set, hxy]
          · simp only [Store.set, hxy, if_false]
            exact href b' (List.mem_cons_of_mem _ hb') x hx
        cases ht : b.target with
        | name y => exact ih hrest _ (hkeep y)
        | ref y =>
          simp only [href b (by simp) y ht, if_true]
          exact ih hrest _ (hkeep y)
  · intro io s
    induction bs generalizing io with
    | nil => intro _; rfl
    | cons b bs ih =>
      intro hh
      have hrest := fun b' hb' => hwt b' (List.mem_cons_of_mem _ hb')
      simp only [collect]
      split
      · exact ih hrest io (fun b' hb' => hh b' (List.mem_cons_of_mem _ hb'))
      · rename_i hout
        have hout' : b.isOut = true := by simpa using hout
        obtain ⟨t, v, w, _, _, hpv, _, hsz, _⟩ := c07_publish_encode s b (hwt b (by simp)) (hh b (by simp) hout')
        simp only [hpv]
        have hvalid : b.addr.valid = true := by
          have := hwt b (by simp)
          unfold Binding.wellTyped at this
          split at this
          · simp only [Bool.and_eq_true] at this; exact this.2
          · cases this
        obtain ⟨io1, hw⟩ := write_valid_ok io b.addr w hvalid hsz
        simp only [hw]
        exact ih hrest io1 (fun b' hb' => hh b' (List.mem_cons_of_mem _ hb'))

/-- **Witness of the repaired finding C07-time-input.**  `x AT %ID0 : TIME` yields one well-typed
DWord binding, and latching the bytes `07 01 00 00` stores `T#263ms` (before the repair:
`TypeMismatch` on every image). -/
theorem c07_time_input_latches (s : Store) :
    let base : Addr := { area := .input, size := .dword, byte := 0, bit := 0, path := [0], wildcard := false }
    let b : Binding := { target := .ref 0, ty := some (.tick .time), addr := base }
    let io : Io := { inputs := [7, 1, 0, 0] }
    expandAt 0 base (.elem (.tick .time)) = some [b] ∧ b.wellTyped = true ∧
    latch io [b] (s.set 0 (.tick .time 0)) = ((s.set 0 (.tick .time 0)).set 0 (.tick .time 263000000), none) := by
  refine ⟨by decide, by decide, ?_⟩
  simp [latch, Binding.isIn, latchValue, read, Io.area, readSpan, getB, fromLe, coerceFromIo, TKind.long,
    TKind.scale, asSigned, Store.set]

/-- **Witness of the repaired finding C07-enum-output.**  An enum variable bound with its base type INT
at `%QW0` and holding the enum with numeric value 2 publishes the bytes `02 00` (before the repair:
`TypeMismatch` whatever the images were). -/
theorem c07_enum_output_publishes :
    let b : Binding := { target := .ref 0, ty := some .int,
                         addr := { area := .output, size := .word, byte := 0, bit := 0, path := [0], wildcard := false } }
    let s : Store := Store.empty.set 0 (.enum 2)
    let io : Io := { outputs := [0, 0, 0, 0] }
    b.wellTyped = true ∧ b.holdsTyped s ∧ collect s [b] io = ({ io with outputs := [2, 0, 0, 0] }, none) := by
  refine ⟨by decide, ⟨.enum 2, .int, rfl, by simp [Store.set, Target.var], by decide, by simp [Value.plain, Value.WF],
    by simp [Value.plain, Value.ioExact]⟩, by rfl⟩

/-- **Counterexample (open finding C07-enum-input).**  `coerce_from_io` never yields an enum: an
enumerated variable bound to `%I`/`%M` (binding type = the base type) is latched as a bare integer of
the base type, so the variable no longer holds a value of its declared (enum) type after the latch. -/
theorem c07_counterexample_enum_input (io : Io) (b : Binding) (t : Ty) (v : Value) (ht : b.ty = some t)
    (h : latchValue io b = .ok v) (n : Int) : v ≠ .enum n := by
  unfold latchValue at h
  cases hr : read io b.addr with
  | error e => simp [hr] at h
  | ok w =>
    simp only [hr, ht] at h
    exact coerceFromIo_not_enum w t v h n

/-- Non-vacuity of the binding theorems: an `INT` at `%IW0` and an `INT` at `%QW2` are inside the guard;
latching bytes `FE FF` gives `-2`, publishing `-2` gives bytes `FE FF` at offset 2. -/
example :
    let bi : Binding := { target := .ref 0, ty := some .int,
                          addr := { area := .input, size := .word, byte := 0, bit := 0, path := [0], wildcard := false } }
    let bq : Binding := { target := .ref 1, ty := some .int,
                          addr := { area := .output, size := .word, byte := 2, bit := 0, path := [2], wildcard := false } }
    let io : Io := { inputs := [0xFE, 0xFF], outputs := [0, 0, 0, 0] }
    let s : Store := (Store.empty.set 0 (.int 0)).set 1 (.int (-2))
    bi.wellTyped = true ∧ bq.wellTyped = true ∧ bq.holdsTyped s ∧
    (latch io [bi, bq] s).1 0 = some (.int (-2)) ∧
    (collect s [bi, bq] io).1.outputs = [0, 0, 0xFE, 0xFF] := by
  refine ⟨by decide, by decide, ⟨.int (-2), .int, rfl, by simp [Store.set, Target.var], rfl,
    by simp [Value.plain, Value.WF], by simp [Value.plain, Value.ioExact]⟩, by rfl, by rfl⟩


/-- **From `x AT base : T` to bindings.**  For an elementary type, a one-dimensional array or a
structure of elementary fields declared at a flat base address with bit index 0..7, whenever
`collect_io_bindings`/`offset_address` accept the declaration they yield one binding per leaf, for the
variables `first, first+1, …` in order, every one `wellTyped` (its type is one the coercions know and
its size is the size of the leaf type whatever the letter of the declaration), in the base's area, and
the leaves occupy pairwise disjoint storage (adjacent spans laid out one after the other): no leaf
overlaps a sibling. -/
theorem c07_expand_layout (first : Nat) (base : Addr) (sh : Shape) (bs : List Binding)
    (hbit : base.bit ≤ 7) (h : expandAt first base sh = some bs) :
    (∀ b ∈ bs, b.wellTyped = true ∧ b.addr.area = base.area ∧ base.byte ≤ b.addr.byte) ∧
    bs.Pairwise (fun b b' => b.addr.disjoint b'.addr = true) ∧
    bs.map (·.target) = (List.range sh.tys.length).map (fun j => Target.ref (first + j)) := by
  unfold expandAt at h
  rw [leaves_eq] at h
  have h25 := expandLeaves_some_expected first base sh.tys 0 0 bs h
  have := expandLeaves_props first base hbit sh.tys 0 0 bs h25 h
  simpa using this

/-- Non-vacuity: `ARRAY[0..2] OF INT AT %QB4` (letter `B`, leaves `W`) gives `%QW4, %QW6, %QW8`;
`ARRAY OF BOOL AT %QX0.3` gives bit 3 of bytes 0 and 1; a structure of a TIME and an LDT at `%MB2`
gives `%MD2, %ML6`; a STRING leaf is refused. -/
example :
    (expandAt 7 { area := .output, size := .byte, byte := 4, bit := 0, path := [4], wildcard := false }
      (.array 3 .int)).map (·.map fun b => (b.target.var, b.addr.size, b.addr.byte, b.addr.bit)) =
      some [(7, .word, 4, 0), (8, .word, 6, 0), (9, .word, 8, 0)] ∧
    (expandAt 0 { area := .output, size := .bit, byte := 0, bit := 3, path := [0], wildcard := false }
      (.array 2 .bool)).map (·.map fun b => (b.addr.size, b.addr.byte, b.addr.bit)) =
      some [(.bit, 0, 3), (.bit, 1, 3)] ∧
    (expandAt 0 { area := .memory, size := .byte, byte := 2, bit := 0, path := [2], wildcard := false }
      (.struct [.tick .time, .tick .ldt])).map (·.map fun b => (b.addr.size, b.addr.byte)) =
      some [(.dword, 2), (.lword, 6)] ∧
    expandAt 0 { area := .memory, size := .byte, byte := 2, bit := 0, path := [2], wildcard := false }
      (.elem .other) = none := by
  refine ⟨by decide, by decide, by decide, by decide⟩

/-! ## The scan cycle: latch once, publish once, nothing in between, nothing on a fault -/

/-- **Latch once, publish once (phase order).**  The trace of every successful cycle is
`CycleStart`, then one `read` per driver in registration order, then events none of which is a driver
call and whose program starts are exactly all programs of the ready tasks followed by the background
programs, in order, then one `write` per driver in registration order, each carrying the final output
image, then `CycleEnd`.  (Clause "each I/O driver is asked for inputs exactly once before any program
code runs and given outputs exactly once after all tasks and background programs finished".) -/
theorem c07_latch_once (bs : List Binding) (rt : Rt) (drv : List DrvIn) (dbg : Dbg) (tasks : List Task)
    (bg : List Prog) (h : (cycle bs rt drv dbg tasks bg).err = none) :
    ∃ reads mid,
      (cycle bs rt drv dbg tasks bg).log =
        .cycleStart :: reads ++ mid ++
          (List.range drv.length).map (fun d => Ev.write d (cycle bs rt drv dbg tasks bg).rt.io.outputs) ++ [.cycleEnd] ∧
      reads.length = drv.length ∧
      (∀ d, d < drv.length → ∃ entry, reads[d]? = some (.read d entry)) ∧
      (∀ e ∈ mid, e.isDriver = false) ∧
      mid.filter Ev.isProg =
        entries (allProgs tasks ++ bg) (readCycleInputs bs rt.io rt.store drv dbg).store := by
  obtain ⟨_, hi, hp, ho, heq⟩ := cycle_ok bs rt drv dbg tasks bg h
  obtain ⟨hr1, hr2⟩ := readPhase_ok drv 0 rt.io.inputs (readCycleInputs_ok _ _ _ _ _ hi)
  obtain ⟨hw1, hw2, _⟩ := writeCycleOutputs_ok _ _ _ _ _ ho
  refine ⟨(readCycleInputs bs rt.io rt.store drv dbg).evs,
    (programPhase tasks bg (readCycleInputs bs rt.io rt.store drv dbg).store).evs, ?_, ?_, ?_,
    programPhase_not_driver _ _ _, ((programPhase_entries _ _ _).2.1 hp).1⟩
  · rw [heq]
    simp only
    rw [hw2, writePhase_ok drv _ 0 hw1]
    simp
  · rw [readCycleInputs_evs]; exact hr1
  · intro d hd
    rw [readCycleInputs_evs]
    simpa using hr2 d hd

/-- **No interference between the latch and the publish.**  Whatever happens in the cycle, the program
bodies that start do so in order, each on exactly the variable storage the previous body left,
starting from the latched storage (`entries`): the runtime itself writes no variable between
`read_cycle_inputs` and `write_cycle_outputs`; on success the storage handed to the publish phase
(and kept afterwards) is the result of the last body. -/
theorem c07_store_thread (bs : List Binding) (rt : Rt) (drv : List DrvIn) (dbg : Dbg) (tasks : List Task)
    (bg : List Prog) :
    (cycle bs rt drv dbg tasks bg).log.filter Ev.isProg <+:
      entries (allProgs tasks ++ bg) (readCycleInputs bs rt.io rt.store drv dbg).store ∧
    ((cycle bs rt drv dbg tasks bg).err = none →
      (cycle bs rt drv dbg tasks bg).rt.store =
        runAll (allProgs tasks ++ bg) (readCycleInputs bs rt.io rt.store drv dbg).store) := by
  constructor
  · have hnil : ∀ l : List Ev, (∀ e ∈ l, e.isRead = true ∨ e.isWrite = true) → l.filter Ev.isProg = [] := by
      intro l hl
      apply List.filter_eq_nil_iff.2
      intro e he hp
      cases e <;> simp_all [Ev.isRead, Ev.isWrite, Ev.isProg]
      all_goals (have := hl _ he; simp at this)
    have hievs : (readCycleInputs bs rt.io rt.store drv dbg).evs.filter Ev.isProg = [] := by
      apply hnil
      rw [readCycleInputs_evs]
      exact fun e he => Or.inl (readPhase_isRead drv 0 rt.io.inputs e he)
    have hoevs : ∀ s, (writeCycleOutputs bs (readCycleInputs bs rt.io rt.store drv dbg).io s drv dbg).evs.filter
        Ev.isProg = [] := by
      intro s
      apply hnil
      exact fun e he => Or.inr (writeCycleOutputs_not_prog _ _ _ _ _ e he)
    have hpre := (programPhase_entries tasks bg (readCycleInputs bs rt.io rt.store drv dbg).store).1
    unfold cycle
    by_cases hf : rt.faulted = true
    · simp [hf]
    · simp only [hf, if_false, Bool.false_eq_true]
      cases hie : (readCycleInputs bs rt.io rt.store drv dbg).err with
      | some pe => simp [failWith, Ev.isProg, hievs]
      | none =>
        simp only
        cases hpe : (programPhase tasks bg (readCycleInputs bs rt.io rt.store drv dbg).store).err with
        | some pe =>
          simp only [failWith, List.cons_append, List.filter_cons, List.filter_append, Ev.isProg, hievs,
            Bool.false_eq_true, if_false, List.filter_nil, List.append_nil, List.nil_append]
          exact hpre
        | none =>
          simp only
          cases hoe : (writeCycleOutputs bs (readCycleInputs bs rt.io rt.store drv dbg).io
              (programPhase tasks bg (readCycleInputs bs rt.io rt.store drv dbg).store).store drv dbg).err with
          | some pe =>
            simp only [failWith, List.cons_append, List.filter_cons, List.filter_append, Ev.isProg, hievs, hoevs,
              Bool.false_eq_true, if_false, List.filter_nil, List.append_nil, List.nil_append]
            exact hpre
          | none =>
            simp only [List.cons_append, List.filter_cons, List.filter_append, Ev.isProg, hievs, hoevs,
              Bool.false_eq_true, if_false, List.filter_nil, List.append_nil, List.nil_append]
            exact hpre
  · intro h
    obtain ⟨_, _, hp, _, heq⟩ := cycle_ok bs rt drv dbg tasks bg h
    rw [heq]
    exact ((programPhase_entries _ _ _).2.1 hp).2

/-- **Every read of an input-bound variable sees the latched value.**  If no program of the cycle
assigns variable `x`, every program body that starts in the cycle — in whichever task, or in the
background — starts on a storage in which `x` has the value the latch left; and when `x` is the
target of an input/memory binding `b` (the last one for `x`), that value is the decoding of what
`read` yields at `b`'s address in the image produced by the drivers (and the debugger's writes). -/
theorem c07_reads_see_latched (bs : List Binding) (rt : Rt) (drv : List DrvIn) (dbg : Dbg)
    (tasks : List Task) (bg : List Prog) (x : Nat)
    (hpres : ∀ p ∈ allProgs tasks ++ bg, ∀ s, (p.run s).1 x = s x) :
    (∀ e ∈ (cycle bs rt drv dbg tasks bg).log, ∀ p entry, e = .prog p entry →
      entry x = (readCycleInputs bs rt.io rt.store drv dbg).store x) ∧
    (∀ pre post b, bs = pre ++ b :: post → b.isIn = true → b.target.var = x →
      (∀ b' ∈ post, b'.isIn = true → b'.target.var ≠ x) →
      (readCycleInputs bs rt.io rt.store drv dbg).err = none →
      ∃ v, latchValue (readCycleInputs bs rt.io rt.store drv dbg).io b = .ok v ∧
        (readCycleInputs bs rt.io rt.store drv dbg).store x = some v) := by
  constructor
  · intro e he p entry hev
    have hpre := (c07_store_thread bs rt drv dbg tasks bg).1
    have hmem : e ∈ (cycle bs rt drv dbg tasks bg).log.filter Ev.isProg := by
      rw [List.mem_filter]
      exact ⟨he, by rw [hev]; rfl⟩
    exact entries_preserved x _ hpres _ e (hpre.subset hmem) p entry hev
  · intro pre post b hbs hin hx hlast hok
    have hl := readCycleInputs_store bs rt.io rt.store drv dbg hok
    subst hx
    subst hbs
    exact c07_latch_value _ pre post b rt.store _ hin hlast hl


/-- **Published bytes = encode(final values), given to every driver.**  After a successful cycle the
storage is the result of the last program body; for an output/memory binding `b` whose span no later
binding and no forced address clashes with, reading `b`'s address in the final images yields the
value `write_outputs` computed from that final storage (`publishValue` — by `c07_publish_encode` the
encoding of the variable's final value); and every driver's `write` call carries exactly the final
output image. -/
theorem c07_published (bs : List Binding) (rt : Rt) (drv : List DrvIn) (dbg : Dbg) (tasks : List Task)
    (bg : List Prog) (h : (cycle bs rt drv dbg tasks bg).err = none)
    (pre post : List Binding) (b : Binding) (hbs : bs = pre ++ b :: post)
    (hout : b.isOut = true) (hv : b.addr.valid = true)
    (hpost : ∀ b' ∈ post, b'.noClash b.addr = true)
    (hforced : ∀ w ∈ dbg.forced, w.1.noClash b.addr = true)
    (hwf : ∀ v, publishValue (cycle bs rt drv dbg tasks bg).rt.store b = .ok v → v.WF) :
    (cycle bs rt drv dbg tasks bg).rt.store =
      runAll (allProgs tasks ++ bg) (readCycleInputs bs rt.io rt.store drv dbg).store ∧
    (∃ v, publishValue (cycle bs rt drv dbg tasks bg).rt.store b = .ok v ∧
      read (cycle bs rt drv dbg tasks bg).rt.io b.addr = .ok v) ∧
    (∀ d, d < drv.length →
      Ev.write d (cycle bs rt drv dbg tasks bg).rt.io.outputs ∈ (cycle bs rt drv dbg tasks bg).log) := by
  refine ⟨(c07_store_thread bs rt drv dbg tasks bg).2 h, ?_, ?_⟩
  · obtain ⟨_, _, _, ho, heq⟩ := cycle_ok bs rt drv dbg tasks bg h
    obtain ⟨_, _, io4, hc, hf⟩ := writeCycleOutputs_ok _ _ _ _ _ ho
    rw [heq] at hwf ⊢
    simp only at hwf ⊢
    subst hbs
    obtain ⟨v, hpv, hr⟩ := c07_collect_value _ pre post b _ io4 hout hv hpost hwf hc
    refine ⟨v, hpv, ?_⟩
    have := applyWrites_read_unchanged b.addr hv dbg.forced io4 hforced
    rw [hf] at this
    simp only at this
    rw [this, hr]
  · obtain ⟨reads, mid, hlog, _⟩ := c07_latch_once bs rt drv dbg tasks bg h
    intro d hd
    rw [hlog]
    simp only [List.mem_append, List.mem_map, List.mem_range, List.mem_cons]
    exact Or.inl (Or.inr ⟨d, hd, rfl⟩)

/-- **A faulted cycle publishes nothing.**  If the cycle fails in any phase before the drivers are
written — a driver's read, the debugger's writes, the latch, a task, a background program, the
collection of the outputs or the forced outputs — no driver receives a `write` call in that cycle
(default fault policy: no safe state), the resource is latched faulted, and unless the failure is in
the collection itself the three images are exactly what the input phase left: no program-computed
byte reaches an image or a driver.  (Clause "a faulted cycle publishes no program-computed outputs";
the guard excludes only a failure of a driver's own `write_outputs`, see `c07_fault_in_publish`.) -/
theorem c07_fault_no_publish (bs : List Binding) (rt : Rt) (drv : List DrvIn) (dbg : Dbg)
    (tasks : List Task) (bg : List Prog) (ph : Phase) (e : Err)
    (h : (cycle bs rt drv dbg tasks bg).err = some (ph, e)) (hph : ph ≠ .driverWrite) :
    (cycle bs rt drv dbg tasks bg).log.filter Ev.isWrite = [] ∧
    (cycle bs rt drv dbg tasks bg).rt.faulted = true ∧
    (ph = .latched → (cycle bs rt drv dbg tasks bg).log = [] ∧ (cycle bs rt drv dbg tasks bg).rt.io = rt.io ∧
      (cycle bs rt drv dbg tasks bg).rt.store = rt.store) ∧
    (ph = .driverRead ∨ ph = .debugWrites ∨ ph = .latch ∨ ph = .tasks ∨ ph = .background →
      (cycle bs rt drv dbg tasks bg).rt.io = (readCycleInputs bs rt.io rt.store drv dbg).io) := by
  have hreads : (readCycleInputs bs rt.io rt.store drv dbg).evs.filter Ev.isWrite = [] := by
    apply List.filter_eq_nil_iff.2
    intro ev hev
    rw [readCycleInputs_evs] at hev
    have := readPhase_isRead drv 0 rt.io.inputs ev hev
    cases ev <;> simp_all [Ev.isRead, Ev.isWrite]
  have hprogs : ∀ s, (programPhase tasks bg s).evs.filter Ev.isWrite = [] := by
    intro s
    apply List.filter_eq_nil_iff.2
    intro ev hev
    have := programPhase_not_driver tasks bg s ev hev
    simp only [Ev.isDriver, Bool.or_eq_false_iff] at this
    simp [this.2]
  unfold cycle at h ⊢
  by_cases hf : rt.faulted = true
  · simp only [hf, if_true] at h ⊢
    simp only [Option.some.injEq, Prod.mk.injEq] at h
    simp [← h.1]
  · simp only [hf, if_false, Bool.false_eq_true] at h ⊢
    cases hie : (readCycleInputs bs rt.io rt.store drv dbg).err with
    | some pe =>
      simp only [hie, failWith, Option.some.injEq] at h ⊢
      subst h
      have hph' : ph ≠ .latched := by
        intro hc
        unfold readCycleInputs at hie
        repeat' split at hie
        all_goals simp_all
      refine ⟨?_, trivial, fun hc => absurd hc hph', fun _ => trivial⟩
      simp only [List.cons_append, List.filter_cons, List.filter_append, Ev.isWrite, hreads,
        Bool.false_eq_true, if_false, List.filter_nil, List.append_nil]
    | none =>
      simp only [hie] at h ⊢
      cases hpe : (programPhase tasks bg (readCycleInputs bs rt.io rt.store drv dbg).store).err with
      | some pe =>
        simp only [hpe, failWith, Option.some.injEq] at h ⊢
        subst h
        have hph' := (programPhase_entries tasks bg (readCycleInputs bs rt.io rt.store drv dbg).store).2.2 ph e hpe
        refine ⟨?_, trivial, fun hc => by rcases hph' with h1 | h1 <;> simp [h1] at hc, fun _ => trivial⟩
        simp only [List.cons_append, List.filter_cons, List.filter_append, Ev.isWrite, hreads, hprogs,
          Bool.false_eq_true, if_false, List.filter_nil, List.append_nil]
      | none =>
        simp only [hpe] at h ⊢
        cases hoe : (writeCycleOutputs bs (readCycleInputs bs rt.io rt.store drv dbg).io
            (programPhase tasks bg (readCycleInputs bs rt.io rt.store drv dbg).store).store drv dbg).err with
        | none => simp [hoe] at h
        | some pe =>
          simp only [hoe, failWith, Option.some.injEq] at h ⊢
          subst h
          obtain ⟨h1, _, h3⟩ := writeCycleOutputs_err _ _ _ _ _ ph e hoe
          refine ⟨?_, trivial, fun hc => by rcases h3 with h3 | h3 | h3 <;> simp [h3] at hc,
            fun hc => by rcases h3 with h3 | h3 | h3 <;> simp [h3] at hc hph⟩
          simp only [List.cons_append, List.filter_cons, List.filter_append, Ev.isWrite, hreads, hprogs, h1 hph,
            Bool.false_eq_true, if_false, List.filter_nil, List.append_nil]

/-- **When the publish itself fails.**  If a driver's `write_outputs` fails, the drivers registered
before it — and the failing one — were each given the complete final output image once, the drivers
after it nothing: a prefix of the drivers has received program-computed outputs although the cycle
counts as faulted.  This is inherent (the failure is detected while publishing) and is the one case
the guard of `c07_fault_no_publish` excludes. -/
theorem c07_fault_in_publish (bs : List Binding) (rt : Rt) (drv : List DrvIn) (dbg : Dbg)
    (tasks : List Task) (bg : List Prog) (e : Err)
    (h : (cycle bs rt drv dbg tasks bg).err = some (.driverWrite, e)) :
    ∃ k, k < drv.length ∧
      (cycle bs rt drv dbg tasks bg).log.filter Ev.isWrite =
        (List.range (k + 1)).map (fun d => Ev.write d (cycle bs rt drv dbg tasks bg).rt.io.outputs) := by
  have hreads : (readCycleInputs bs rt.io rt.store drv dbg).evs.filter Ev.isWrite = [] := by
    apply List.filter_eq_nil_iff.2
    intro ev hev
    rw [readCycleInputs_evs] at hev
    have := readPhase_isRead drv 0 rt.io.inputs ev hev
    cases ev <;> simp_all [Ev.isRead, Ev.isWrite]
  have hprogs : ∀ s, (programPhase tasks bg s).evs.filter Ev.isWrite = [] := by
    intro s
    apply List.filter_eq_nil_iff.2
    intro ev hev
    have := programPhase_not_driver tasks bg s ev hev
    simp only [Ev.isDriver, Bool.or_eq_false_iff] at this
    simp [this.2]
  unfold cycle at h ⊢
  by_cases hf : rt.faulted = true
  · simp [hf] at h
  · simp only [hf, if_false, Bool.false_eq_true] at h ⊢
    cases hie : (readCycleInputs bs rt.io rt.store drv dbg).err with
    | some pe =>
      simp only [hie, failWith, Option.some.injEq] at h
      subst h
      unfold readCycleInputs at hie
      repeat' split at hie
      all_goals simp_all
    | none =>
      simp only [hie] at h ⊢
      cases hpe : (programPhase tasks bg (readCycleInputs bs rt.io rt.store drv dbg).store).err with
      | some pe =>
        simp only [hpe, failWith, Option.some.injEq] at h
        subst h
        have := (programPhase_entries tasks bg (readCycleInputs bs rt.io rt.store drv dbg).store).2.2 _ e hpe
        simp at this
      | none =>
        simp only [hpe] at h ⊢
        cases hoe : (writeCycleOutputs bs (readCycleInputs bs rt.io rt.store drv dbg).io
            (programPhase tasks bg (readCycleInputs bs rt.io rt.store drv dbg).store).store drv dbg).err with
        | none => simp [hoe] at h
        | some pe =>
          simp only [hoe, failWith, Option.some.injEq] at h ⊢
          subst h
          obtain ⟨_, h2, _⟩ := writeCycleOutputs_err _ _ _ _ _ _ e hoe
          obtain ⟨hev, herr⟩ := h2 rfl
          obtain ⟨k, hk, hw⟩ := writePhase_err drv _ 0 e herr
          refine ⟨k, hk, ?_⟩
          simp only [List.cons_append, List.filter_cons, List.filter_append, Ev.isWrite, hreads, hprogs,
            Bool.false_eq_true, if_false, List.filter_nil, List.append_nil, List.nil_append]
          rw [hev, hw]
          simp only [Nat.zero_add]
          apply List.filter_eq_self.2
          intro ev hev
          simp only [List.mem_map] at hev
          obtain ⟨d, _, rfl⟩ := hev
          rfl

/-- **A faulted resource does not touch the process image.**  Once faulted (and until the fault is
cleared) `execute_cycle` asks no driver, runs no program, gives no driver anything and leaves
variables and images as they are. -/
theorem c07_faulted_noop (bs : List Binding) (rt : Rt) (drv : List DrvIn) (dbg : Dbg) (tasks : List Task)
    (bg : List Prog) (h : rt.faulted = true) :
    (cycle bs rt drv dbg tasks bg).log = [] ∧ (cycle bs rt drv dbg tasks bg).rt.io = rt.io ∧
    (cycle bs rt drv dbg tasks bg).rt.store = rt.store ∧
    (cycle bs rt drv dbg tasks bg).err = some (.latched, .resourceFaulted) := by
  simp [cycle, h]


/-- **Counterexample showing the guard of `c07_fault_no_publish` is needed.**  Three drivers, the
second fails in `write_outputs`: the cycle is faulted, yet drivers 0 and 1 were handed the
program-computed byte `9`; driver 2 got nothing. -/
theorem c07_counterexample_fault_in_publish :
    let bq : Binding := { target := .ref 1, ty := some .byte,
                          addr := { area := .output, size := .byte, byte := 0, bit := 0, path := [0], wildcard := false } }
    let rt : Rt := { io := { outputs := [0] }, store := Store.empty.set 1 (.byte 0) }
    let p : Prog := { id := 0, run := fun s => (s.set 1 (.byte 9), none) }
    let out := cycle [bq] rt [{}, { writeFail := true }, {}] {} [] [p]
    out.err = some (.driverWrite, .ioDriver) ∧ out.rt.faulted = true ∧
    out.log.filter Ev.isWrite = [.write 0 [9], .write 1 [9]] := by
  refine ⟨by decide, by decide, by rfl⟩

/-- Non-vacuity of the cycle theorems: one driver delivering byte 7, `%IB0 → v0`, a task program
`v1 := v0`, `v1 → %QB0`.  The cycle succeeds, the trace is
`CycleStart, read, TaskStart, prog, TaskEnd, write, CycleEnd`, the driver is given `[7]`. -/
example :
    let bi : Binding := { target := .ref 0, ty := some .byte,
                          addr := { area := .input, size := .byte, byte := 0, bit := 0, path := [0], wildcard := false } }
    let bq : Binding := { target := .ref 1, ty := some .byte,
                          addr := { area := .output, size := .byte, byte := 0, bit := 0, path := [0], wildcard := false } }
    let rt : Rt := { io := { inputs := [0], outputs := [0] }, store := (Store.empty.set 0 (.byte 0)).set 1 (.byte 0) }
    let p : Prog := { id := 0, run := execStmts [.copy 1 0] }
    let out := cycle [bi, bq] rt [{ pokes := [(0, 7)] }] {} [{ id := 0, progs := [p] }] []
    out.err = none ∧ out.rt.io.outputs = [7] ∧
    out.log.map Ev.isDriver = [false, true, false, false, false, true, false] ∧
    out.log.filter Ev.isWrite = [.write 0 [7]] ∧ out.rt.store 1 = some (.byte 7) := by
  refine ⟨by decide, by decide, by decide, by rfl, by decide⟩

/-- Non-vacuity of `c07_fault_no_publish`: the same configuration with a background program that
assigns `v1 := 9` and then divides by zero: the cycle fails in the background phase, the driver is
read once and written never, the output image keeps its old content although `v1` is already 9. -/
example :
    let bq : Binding := { target := .ref 1, ty := some .byte,
                          addr := { area := .output, size := .byte, byte := 0, bit := 0, path := [0], wildcard := false } }
    let rt : Rt := { io := { inputs := [0], outputs := [0] }, store := Store.empty.set 1 (.byte 0) }
    let p : Prog := { id := 0, run := fun s => (s.set 1 (.byte 9), some .divisionByZero) }
    let out := cycle [bq] rt [{ pokes := [(0, 7)] }] {} [] [p]
    out.err = some (.background, .divisionByZero) ∧ out.log.map Ev.isDriver = [false, true, false, false] ∧
    out.rt.io.outputs = [0] ∧ out.rt.store 1 = some (.byte 9) ∧ out.rt.faulted = true := by
  refine ⟨by decide, by decide, by decide, by decide, by decide⟩

/-! ## Partial access on bit-string variables (`x.%X3`, `w.%B1`, …) -/

/-- **Partial read.**  A successful partial read of part `index` of width `w` bits lies inside the
target and yields bits `[index·w, index·w + w)` of the target's value: `value / 2^(index·w) % 2^w`
(byte 0 is the least significant byte, bit `n` has weight `2^n`). -/
theorem c07_partial_read (target r : Value) (acc : PAccess) (h : readPartial target acc = .ok r) :
    ∃ tw, target.bitWidth = some tw ∧ acc.shift + acc.width ≤ tw ∧
      r = mkPart acc (target.bitsVal / 2 ^ acc.shift % 2 ^ acc.width) := by
  unfold readPartial at h
  cases htw : target.bitWidth with
  | none => simp [htw] at h
  | some tw =>
    simp only [htw] at h
    split at h
    · cases h
    · rename_i h1
      split at h
      · cases h
      · rename_i h2
        injection h with h
        refine ⟨tw, rfl, part_inside tw acc.width acc.index h1 h2 (width_pos acc), ?_⟩
        rw [← h, Nat.and_two_pow_sub_one_eq_mod, Nat.shiftRight_eq_div_pow]
        rfl

/-- **Partial write: frame, content, read-after-write, range.**  A successful partial write keeps the
target's type and range, sets bits `[index·w, index·w + w)` to the written part and leaves every
other bit of the target as it was; reading the same part back yields the written value.
(Clause "touches only the bits/bytes that address denotes", for partial access.) -/
theorem c07_partial_write (target v t' : Value) (acc : PAccess) (ht : target.WF) (hv : v.WF)
    (h : writePartial target acc v = .ok t') :
    ∃ tw x, target.bitWidth = some tw ∧ partPayload acc v = some x ∧ acc.shift + acc.width ≤ tw ∧
      t'.bitWidth = some tw ∧ t'.WF ∧
      (∀ j, t'.bitsVal.testBit j =
        if acc.shift ≤ j ∧ j < acc.shift + acc.width then x.testBit (j - acc.shift)
        else target.bitsVal.testBit j) ∧
      readPartial t' acc = .ok v := by
  unfold writePartial at h
  cases htw : target.bitWidth with
  | none => simp [htw] at h
  | some tw =>
    cases hx : partPayload acc v with
    | none => simp [htw, hx] at h
    | some x =>
      simp only [htw, hx] at h
      split at h
      · cases h
      · rename_i h1
        split at h
        · cases h
        · rename_i h2
          injection h with h
          have hin := part_inside tw acc.width acc.index h1 h2 (width_pos acc)
          obtain ⟨hxlt, hmk⟩ := partPayload_props acc v x hx hv
          obtain ⟨htwc, hteq⟩ := bitWidth_cases target tw htw
          have hwlt : target.bitsVal < 2 ^ tw := by
            have := (mkBits_props tw target.bitsVal htwc).2.2
            rw [← hteq] at this
            exact this.1 ht
          have hbits := partial_testBit target.bitsVal x tw acc.width (acc.index * acc.width) hin hxlt
          obtain ⟨m1, m2, m3⟩ := mkBits_props tw
            (target.bitsVal &&& (2 ^ tw - 1 - (2 ^ acc.width - 1) <<< (acc.index * acc.width)) |||
              x <<< (acc.index * acc.width)) htwc
          have hhigh : ∀ j, j ≥ tw → target.bitsVal.testBit j = false := fun j hj =>
            Nat.testBit_lt_two_pow (Nat.lt_of_lt_of_le hwlt (Nat.pow_le_pow_right (by omega) hj))
          have hbits' : ∀ j, (target.bitsVal &&& (2 ^ tw - 1 - (2 ^ acc.width - 1) <<< (acc.index * acc.width)) |||
              x <<< (acc.index * acc.width)).testBit j =
              if acc.index * acc.width ≤ j ∧ j < acc.index * acc.width + acc.width then
                x.testBit (j - acc.index * acc.width) else target.bitsVal.testBit j := by
            intro j
            rw [hbits j]
            split
            · rfl
            · by_cases hj : j < tw
              · simp [hj]
              · simp [hj, hhigh j (by omega)]
          have hnew : (target.bitsVal &&& (2 ^ tw - 1 - (2 ^ acc.width - 1) <<< (acc.index * acc.width)) |||
              x <<< (acc.index * acc.width)) < 2 ^ tw := by
            apply Nat.lt_pow_two_of_testBit
            intro j hj
            rw [hbits' j]
            have : ¬ (acc.index * acc.width ≤ j ∧ j < acc.index * acc.width + acc.width) := by omega
            simp only [this, if_false]
            exact hhigh j hj
          subst h
          refine ⟨tw, x, rfl, rfl, hin, m1, m3.2 hnew, ?_, ?_⟩
          · intro j
            rw [m2]
            exact hbits' j
          · unfold readPartial
            simp only [m1, h1, h2, if_false, m2]
            rw [← hmk]
            congr 2
            apply Nat.eq_of_testBit_eq
            intro k
            rw [Nat.and_two_pow_sub_one_eq_mod, Nat.testBit_mod_two_pow, Nat.testBit_shiftRight, hbits']
            by_cases hk : k < acc.width
            · have : acc.index * acc.width ≤ acc.index * acc.width + k ∧
                  acc.index * acc.width + k < acc.index * acc.width + acc.width := by omega
              simp [hk, this]
            · have : x.testBit k = false :=
                Nat.testBit_lt_two_pow (Nat.lt_of_lt_of_le hxlt (Nat.pow_le_pow_right (by omega) (by omega)))
              simp [hk, this]

/-- Non-vacuity: `W#16#1234`, `%B1 := 16#AB` gives `16#AB34`; reading `%B1` back gives `16#AB`, `%X2`
of `16#1234` is bit 2 (`TRUE`). -/
example :
    writePartial (.word 0x1234) (.byte 1) (.byte 0xAB) = .ok (.word 0xAB34) ∧
    readPartial (.word 0xAB34) (.byte 1) = .ok (.byte 0xAB) ∧
    readPartial (.word 0x1234) (.bit 2) = .ok (.bool true) ∧
    readPartial (.word 0x1234) (.byte 2) = .error (.indexOutOfBounds 2 1) := by
  refine ⟨by rfl, by rfl, by rfl, by rfl⟩

end TrustVerif.C07
