import TrustVerif.Lemmas.C08

/-!
# C08 — a fault halts the resource and, under safe_halt, forces every safe-state output

Property theorems only.  `Model/C08.lean` mirrors `execute_cycle`, `apply_fault`,
`apply_safe_state`, `IoSafeState::apply`, `IoInterface::{read,write}` and the decision tables.
The machine is generic in the application (`Sem`: programs, plan, bindings, drivers are arbitrary
functions), so every statement below holds for all programs, all binding sets, all (stateful)
drivers, all safe-state maps and all histories.
-/
namespace TrustVerif.C08

variable {σ δ : Type}

/-! ## Policy table -/

/-- **Policy table.**  Fault policy: safe state is applied for `safe_halt` and only for it.
Watchdog: safe state is applied for the actions `halt` and `safe_halt`, not for `restart`.
The action itself is carried over unchanged. -/
theorem c08_policy_table :
    (∀ p, (FaultDecision.fromFaultPolicy p).applySafeState = true ↔ p = .safeHalt) ∧
    (∀ a, (FaultDecision.fromWatchdog a).applySafeState = true ↔ a = .halt ∨ a = .safeHalt) ∧
    (FaultDecision.fromFaultPolicy .halt).action = .halt ∧
    (FaultDecision.fromFaultPolicy .safeHalt).action = .safeHalt ∧
    (FaultDecision.fromFaultPolicy .restart).action = .restart ∧
    (FaultDecision.fromWatchdog .halt).action = .halt ∧
    (FaultDecision.fromWatchdog .safeHalt).action = .safeHalt ∧
    (FaultDecision.fromWatchdog .restart).action = .restart := by
  refine ⟨?_, ?_, rfl, rfl, rfl, rfl, rfl, rfl⟩
  · intro p; cases p <;> simp [FaultDecision.fromFaultPolicy]
  · intro a; cases a <;> simp [FaultDecision.fromWatchdog]

/-! ## The latch -/

/-- **A cycle request on a faulted resource is refused and is the identity.**  It returns
`ResourceFaulted`, produces no event at all (no driver call, no program activation, no statement)
and leaves the whole state — variables, task states, images, driver/retain-store state, pending
debug I/O writes, pending debugger variable / l-value writes (they stay queued, they are not
applied), forced values, clock, cycle counter, latch — exactly as it was. -/
theorem c08_refused (sem : Sem σ δ) (s : RState σ δ) (h : s.faulted = true) :
    executeCycle sem s = { st := s, evs := [], err := some .resourceFaulted } := by
  simp [executeCycle, h]

/-- One non-resetting operation keeps the latch, the variables and the cycle counter. -/
theorem c08_step_keeps_latch (sem : Sem σ δ) (s : RState σ δ) (h : s.faulted = true) (op : Op)
    (hop : op.resets = false) :
    (step sem s op).st.faulted = true ∧ (step sem s op).st.store = s.store ∧
    (step sem s op).st.cycles = s.cycles := by
  cases op with
  | cycle => simp [step, c08_refused sem s h, h]
  | advance dt => simp [step, h]
  | watchdog =>
    simp only [step, applyFault]
    split <;> simp [applySafeState]
  | simFault =>
    simp only [step, applyFault]
    split <;> simp [applySafeState]
  | setPolicy p => simp [step, h]
  | setWatchdog a => simp [step, h]
  | setSafe sf => simp [step, h]
  | dbgWrite a v => simp [step, h]
  | forceIo a v => simp [step, h]
  | releaseIo a => simp [step, h]
  | varWrite k v => simp [step, h]
  | lvalWrite k v => simp [step, h]
  | forceVar k v => simp [step, h]
  | releaseVar k => simp [step, h]
  | restart m => simp [Op.resets] at hop
  | clearFault => simp [Op.resets] at hop

/-- **Latched until restart (induction over histories).**  From a faulted state, along every
history of operations that contains no `restart` / `clear_fault` — cycle requests, clock
advances, further watchdog timeouts and simulation faults, policy / watchdog / safe-state
updates, queued debug writes, in any order and number — the resource stays faulted, no variable
changes, the cycle counter stands still, and **every** cycle request in the history is refused as
in `c08_refused` (identity on the state reached so far, no driver call, no statement). -/
theorem c08_latched (sem : Sem σ δ) (s : RState σ δ) (h : s.faulted = true) (ops : List Op)
    (hno : ∀ op ∈ ops, op.resets = false) :
    (run sem s ops).faulted = true ∧ (run sem s ops).store = s.store ∧
    (run sem s ops).cycles = s.cycles ∧
    ∀ pre post, ops = pre ++ Op.cycle :: post →
      step sem (run sem s pre) .cycle =
        { st := run sem s pre, evs := [], err := some .resourceFaulted } := by
  have key : ∀ (ops : List Op) (s : RState σ δ), s.faulted = true → (∀ op ∈ ops, op.resets = false) →
      (run sem s ops).faulted = true ∧ (run sem s ops).store = s.store ∧
      (run sem s ops).cycles = s.cycles := by
    intro ops
    induction ops with
    | nil => intro s h _; exact ⟨h, rfl, rfl⟩
    | cons op ops ih =>
      intro s h hno
      have h1 := c08_step_keeps_latch sem s h op (hno op (List.mem_cons_self ..))
      have h2 := ih (step sem s op).st h1.1 (fun o ho => hno o (List.mem_cons_of_mem _ ho))
      simp only [run]
      exact ⟨h2.1, h2.2.1.trans h1.2.1, h2.2.2.trans h1.2.2⟩
  obtain ⟨h1, h2, h3⟩ := key ops s h hno
  refine ⟨h1, h2, h3, ?_⟩
  intro pre post hsplit
  have hpre : ∀ op ∈ pre, op.resets = false := fun o ho => hno o (by simp [hsplit, ho])
  have := (key pre s h hpre).1
  simp only [step]
  exact c08_refused sem _ this

/-- Cycle requests alone cannot move a faulted resource at all: the state after any number of
them is the state before. -/
theorem c08_latched_cycles (sem : Sem σ δ) (s : RState σ δ) (h : s.faulted = true) (n : Nat) :
    run sem s (List.replicate n Op.cycle) = s := by
  induction n with
  | zero => rfl
  | succ n ih => simp [List.replicate_succ, run, step, c08_refused sem s h, ih]

/-- The queue operations of a history: what `enqueue_*_write` alone would make of the queues. -/
def qVarStep (q : List (Nat × Int)) : Op → List (Nat × Int)
  | .varWrite k v => targetSet q k v
  | _ => q

def qLvalStep (q : List (Nat × Int)) : Op → List (Nat × Int)
  | .lvalWrite k v => q ++ [(k, v)]
  | _ => q

def queuedVar (ops : List Op) (q : List (Nat × Int)) : List (Nat × Int) := ops.foldl qVarStep q

def queuedLval (ops : List Op) (q : List (Nat × Int)) : List (Nat × Int) := ops.foldl qLvalStep q

/-- **Pending debugger writes do not reach a halted resource.**  From a faulted state, along
every history without `restart` / `clear_fault` — in which a debugger may queue variable and
l-value writes, force and release variables and I/O addresses at any point, and cycles are
requested at any point — no variable changes, and the pending-write queues are exactly what the
enqueue operations alone produce: no refused cycle (nor anything else) drains or applies them. -/
theorem c08_latched_queue (sem : Sem σ δ) (s : RState σ δ) (h : s.faulted = true) (ops : List Op)
    (hno : ∀ op ∈ ops, op.resets = false) :
    (run sem s ops).store = s.store ∧ (run sem s ops).varQ = queuedVar ops s.varQ ∧
    (run sem s ops).lvalQ = queuedLval ops s.lvalQ := by
  induction ops generalizing s with
  | nil => exact ⟨rfl, rfl, rfl⟩
  | cons op ops ih =>
    have hop := hno op (List.mem_cons_self ..)
    have h1 := c08_step_keeps_latch sem s h op hop
    have hq : (step sem s op).st.varQ = qVarStep s.varQ op ∧
        (step sem s op).st.lvalQ = qLvalStep s.lvalQ op := by
      cases op with
      | cycle => simp [step, c08_refused sem s h, qVarStep, qLvalStep]
      | watchdog =>
        simp only [step, qVarStep, qLvalStep]
        exact ⟨(applyFault_ctl sem s _ _).2.2.2.2.2.2.1, (applyFault_ctl sem s _ _).2.2.2.2.2.2.2⟩
      | simFault =>
        simp only [step, qVarStep, qLvalStep]
        exact ⟨(applyFault_ctl sem s _ _).2.2.2.2.2.2.1, (applyFault_ctl sem s _ _).2.2.2.2.2.2.2⟩
      | restart m => simp [Op.resets] at hop
      | clearFault => simp [Op.resets] at hop
      | _ => simp [step, qVarStep, qLvalStep]
    have h2 := ih (step sem s op).st h1.1 (fun o ho => hno o (List.mem_cons_of_mem _ ho))
    simp only [run, queuedVar, queuedLval, List.foldl_cons]
    refine ⟨h2.1.trans h1.2.1, ?_, ?_⟩
    · rw [h2.2.1, hq.1]; rfl
    · rw [h2.2.2, hq.2]; rfl

/-- **Until a restart**: `clear_fault` and a restart (either mode) that SUCCEEDS end the latch. -/
theorem c08_restart_clears (sem : Sem σ δ) (s : RState σ δ) :
    ((step sem s .clearFault).st.faulted = false ∧ (step sem s .clearFault).err = none) ∧
    ∀ m, (sem.reinit m s.store).2 = none →
      (step sem s (.restart m)).st.faulted = false ∧ (step sem s (.restart m)).st.lastFault = none ∧
      (step sem s (.restart m)).err = none := by
  refine ⟨by simp [step], fun m h => ?_⟩
  simp [step, h]

/-- **A failed restart is not a restart.**  If the re-initialisation fails half-way, `restart`
returns that error and touches nothing but the (partly rebuilt) storage: latch, last fault, images,
driver state, pending queues, clock and cycle counter are as before.  On a faulted resource the
latch therefore stays set and the next cycle request is refused. -/
theorem c08_failed_restart (sem : Sem σ δ) (s : RState σ δ) (m : RestartMode) (e : Err)
    (h : (sem.reinit m s.store).2 = some e) :
    (step sem s (.restart m)).err = some e ∧
    (step sem s (.restart m)).st = { s with store := (sem.reinit m s.store).1 } ∧
    (s.faulted = true →
      executeCycle sem (step sem s (.restart m)).st =
        { st := (step sem s (.restart m)).st, evs := [], err := some .resourceFaulted }) := by
  have hst : (step sem s (.restart m)).st = { s with store := (sem.reinit m s.store).1 } := by
    simp [step, h]
  refine ⟨by simp [step, h], hst, fun hf => ?_⟩
  exact c08_refused sem _ (by rw [hst]; exact hf)

/-- Does the operation release the latch in this state?  `clear_fault` always, `restart` iff it
succeeds. -/
def releases (sem : Sem σ δ) (s : RState σ δ) : Op → Bool
  | .clearFault => true
  | .restart m => (sem.reinit m s.store).2.isNone
  | _ => false

/-- No operation of the history releases the latch in the state it is applied to. -/
def noRelease (sem : Sem σ δ) : RState σ δ → List Op → Prop
  | _, [] => True
  | s, op :: ops => releases sem s op = false ∧ noRelease sem (step sem s op).st ops

/-- **Latched until a SUCCESSFUL restart (induction over histories).**  From a faulted state,
along every history in which no `clear_fault` occurs and every restart attempt fails — with
cycles, faults, debugger activity and configuration updates in between, in any order — the
resource stays faulted, the cycle counter stands still, and every cycle request is refused as in
`c08_refused` (identity on the state reached so far).  (Variables can change in such a history
only through what the failing restart attempts themselves leave behind.) -/
theorem c08_latched_failed_restarts (sem : Sem σ δ) (s : RState σ δ) (h : s.faulted = true)
    (ops : List Op) (hno : noRelease sem s ops) :
    (run sem s ops).faulted = true ∧ (run sem s ops).cycles = s.cycles ∧
    ∀ pre post, ops = pre ++ Op.cycle :: post →
      step sem (run sem s pre) .cycle =
        { st := run sem s pre, evs := [], err := some .resourceFaulted } := by
  have stepk : ∀ (s : RState σ δ) (op : Op), s.faulted = true → releases sem s op = false →
      (step sem s op).st.faulted = true ∧ (step sem s op).st.cycles = s.cycles := by
    intro s op h hr
    by_cases hres : op.resets = false
    · have := c08_step_keeps_latch sem s h op hres
      exact ⟨this.1, this.2.2⟩
    · cases op <;> simp [Op.resets] at hres
      case restart m =>
        simp only [releases] at hr
        cases hre : (sem.reinit m s.store).2 with
        | none => simp [hre] at hr
        | some e => rw [(c08_failed_restart sem s m e hre).2.1]; exact ⟨h, rfl⟩
      case clearFault => simp [releases] at hr
  have key : ∀ (ops : List Op) (s : RState σ δ), s.faulted = true → noRelease sem s ops →
      (run sem s ops).faulted = true ∧ (run sem s ops).cycles = s.cycles := by
    intro ops
    induction ops with
    | nil => intro s h _; exact ⟨h, rfl⟩
    | cons op ops ih =>
      intro s h hno
      have h1 := stepk s op h hno.1
      have h2 := ih (step sem s op).st h1.1 hno.2
      simp only [run]
      exact ⟨h2.1, h2.2.trans h1.2⟩
  have hprefix : ∀ (pre post : List Op) (s : RState σ δ), noRelease sem s (pre ++ post) →
      noRelease sem s pre := by
    intro pre
    induction pre with
    | nil => intro _ _ _; trivial
    | cons op pre ih => intro post s hn; exact ⟨hn.1, ih post _ hn.2⟩
  obtain ⟨h1, h2⟩ := key ops s h hno
  refine ⟨h1, h2, ?_⟩
  intro pre post hsplit
  have := (key pre s h (hprefix pre (Op.cycle :: post) s (hsplit ▸ hno))).1
  simp only [step]
  exact c08_refused sem _ this

/-! ## Every fault reaches the latch -/

/-- `apply_fault` sets the latch, records the error and hands the same error back. -/
theorem c08_apply_fault_latches (sem : Sem σ δ) (s : RState σ δ) (e : Err) (dec : FaultDecision) :
    (applyFault sem s e dec).st.faulted = true ∧ (applyFault sem s e dec).st.lastFault = some e ∧
    (applyFault sem s e dec).err = some e ∧ (applyFault sem s e dec).st.store = s.store := by
  simp only [applyFault]
  split <;> simp [applySafeState]

/-- **Whatever cycle or fault operation reports an error leaves the resource faulted.**  Either
the error is the refusal of a cycle on an already faulted resource (nothing changed), or it has
just been latched as `last_fault`.  (The only other operation that can report an error is a
failing `restart`, which is not a cycle and leaves the latch as it was: `c08_failed_restart`.) -/
theorem c08_error_latches (sem : Sem σ δ) (s : RState σ δ) (op : Op) (e : Err)
    (hop : ∀ m, op ≠ .restart m) (h : (step sem s op).err = some e) :
    (step sem s op).st.faulted = true ∧
    ((step sem s op).st.lastFault = some e ∨
      (e = .resourceFaulted ∧ s.faulted = true ∧ (step sem s op).st = s)) := by
  cases op with
  | cycle =>
    simp only [step] at h ⊢
    by_cases hf : s.faulted = true
    · rw [c08_refused sem s hf] at h ⊢
      simp only [Option.some.injEq] at h
      exact ⟨hf, Or.inr ⟨h.symm, hf, rfl⟩⟩
    · simp only [executeCycle, hf, Bool.false_eq_true, if_false] at h ⊢
      cases hr : (runPhases (cyclePhases sem) s).err with
      | none => simp [hr] at h
      | some e' =>
        simp only [hr, Option.some.injEq] at h ⊢
        subst h
        have := c08_apply_fault_latches sem (runPhases (cyclePhases sem) s).st e'
          (FaultDecision.fromFaultPolicy (runPhases (cyclePhases sem) s).st.policy)
        exact ⟨this.1, Or.inl this.2.1⟩
  | watchdog =>
    have := c08_apply_fault_latches sem s .watchdogTimeout (FaultDecision.fromWatchdog s.wdAction)
    simp only [step] at h ⊢
    rw [this.2.2.1] at h
    simp only [Option.some.injEq] at h
    subst h
    exact ⟨this.1, Or.inl this.2.1⟩
  | simFault =>
    have := c08_apply_fault_latches sem s .simulationFault (FaultDecision.fromFaultPolicy s.policy)
    simp only [step] at h ⊢
    rw [this.2.2.1] at h
    simp only [Option.some.injEq] at h
    subst h
    exact ⟨this.1, Or.inl this.2.1⟩
  | advance dt => simp [step] at h
  | setPolicy p => simp [step] at h
  | setWatchdog a => simp [step] at h
  | setSafe sf => simp [step] at h
  | dbgWrite a v => simp [step] at h
  | forceIo a v => simp [step] at h
  | releaseIo a => simp [step] at h
  | varWrite k v => simp [step] at h
  | lvalWrite k v => simp [step] at h
  | forceVar k v => simp [step] at h
  | releaseVar k => simp [step] at h
  | restart m => exact absurd rfl (hop m)
  | clearFault => simp [step] at h

/-- Watchdog timeout and simulation fault always fault the resource (they go through
`apply_fault` with the watchdog's, respectively the fault policy's, decision). -/
theorem c08_fault_ops (sem : Sem σ δ) (s : RState σ δ) :
    step sem s .watchdog = applyFault sem s .watchdogTimeout (FaultDecision.fromWatchdog s.wdAction) ∧
    step sem s .simFault = applyFault sem s .simulationFault (FaultDecision.fromFaultPolicy s.policy) ∧
    (step sem s .watchdog).err = some .watchdogTimeout ∧ (step sem s .watchdog).st.faulted = true ∧
    (step sem s .simFault).err = some .simulationFault ∧ (step sem s .simFault).st.faulted = true := by
  have h1 := c08_apply_fault_latches sem s .watchdogTimeout (FaultDecision.fromWatchdog s.wdAction)
  have h2 := c08_apply_fault_latches sem s .simulationFault (FaultDecision.fromFaultPolicy s.policy)
  exact ⟨rfl, rfl, h1.2.2.1, h1.1, h2.2.2.1, h2.1⟩

/-- **Outcome of a cycle on a resource that is not faulted.**  With `ph` the result of the ten
phases (pending debugger variable writes, driver reads, debug I/O writes, forced values, binding
latch, tasks and background programs, binding publish, forced values again, driver writes, retain
save) run with first-failure semantics:
* if no phase fails the cycle succeeds, the latch stays open and the counter advances;
* if a phase fails with `e` the cycle returns `e` and the state is exactly
  `record_fault` (= `apply_fault` with the fault policy's decision) applied to the state the
  failing phase left behind; nothing else runs in between (the events are those of the phases up
  to the failure followed by those of `apply_fault`). -/
theorem c08_cycle_outcome (sem : Sem σ δ) (s : RState σ δ) (hs : s.faulted = false) :
    let ph := runPhases (cyclePhases sem) s
    let r := executeCycle sem s
    match ph.err with
    | none =>
      r.err = none ∧ r.st = { ph.st with cycles := ph.st.cycles + 1 } ∧ r.st.faulted = false ∧
      r.evs = Ev.cycleStart :: (ph.evs ++ [Ev.cycleEnd])
    | some e =>
      r.err = some e ∧ r.st = (recordFault sem ph.st e).st ∧
      r.evs = Ev.cycleStart :: (ph.evs ++ (recordFault sem ph.st e).evs) ∧
      r.st.faulted = true ∧ r.st.lastFault = some e := by
  intro ph r
  have hctl := runPhases_sameCtl (cyclePhases sem) (cyclePhases_sameCtl sem) s
  cases hr : ph.err with
  | none =>
    simp only [r, ph, executeCycle, hs, Bool.false_eq_true, if_false] at hr ⊢
    simp only [hr]
    exact ⟨trivial, trivial, by simpa [hs] using hctl.faulted, trivial⟩
  | some e =>
    simp only [r, ph, executeCycle, hs, Bool.false_eq_true, if_false] at hr ⊢
    simp only [hr]
    have := c08_apply_fault_latches sem (runPhases (cyclePhases sem) s).st e
      (FaultDecision.fromFaultPolicy (runPhases (cyclePhases sem) s).st.policy)
    exact ⟨trivial, trivial, trivial, this.1, this.2.1⟩

/-- **… and are applied by the first cycle that is not refused** (after `restart` /
`clear_fault`, or on a healthy resource): that cycle starts by applying the queued variable writes,
then the queued l-value writes, in order, to the storage, and whatever happens in it afterwards —
success or fault — both queues are empty when it returns. -/
theorem c08_queue_drained (sem : Sem σ δ) (s : RState σ δ) (hs : s.faulted = false) :
    (executeCycle sem s).st.varQ = [] ∧ (executeCycle sem s).st.lvalQ = [] ∧
    (phaseVarWrites sem s).st.store = applyPokes sem (s.varQ ++ s.lvalQ) s.store ∧
    cyclePhases sem = phaseVarWrites sem :: (cyclePhases sem).tail := by
  have hq := cyclePhases_qempty sem s
  have hout := c08_cycle_outcome sem s hs
  refine ⟨?_, ?_, rfl, rfl⟩
  all_goals
    cases hr : (runPhases (cyclePhases sem) s).err with
    | none => simp only [hr] at hout; rw [hout.2.1]; first | exact hq.1 | exact hq.2
    | some e =>
      simp only [hr] at hout
      rw [hout.2.1]
      simp only [recordFault]
      first
        | rw [(applyFault_ctl sem _ e _).2.2.2.2.2.2.1]; exact hq.1
        | rw [(applyFault_ctl sem _ e _).2.2.2.2.2.2.2]; exact hq.2

/-- **Fault sources, phase level.**  Whichever of the ten phases of the cycle is the first to
fail — after any number of earlier phases succeeded — its error is what `execute_cycle` returns,
the resource is faulted with that error as `last_fault`, and the state is `record_fault` applied
to the state the failing phase left: no later phase runs (in particular a fault before the
publish phase publishes nothing and calls no driver `write_outputs` with program-computed bytes). -/
theorem c08_fault_sources (sem : Sem σ δ) (s : RState σ δ) (hs : s.faulted = false)
    (pre post : List (Phase σ δ)) (p : Phase σ δ) (hsplit : cyclePhases sem = pre ++ p :: post)
    (hpre : (runPhases pre s).err = none) (e : Err) (hp : (p (runPhases pre s).st).err = some e) :
    (executeCycle sem s).err = some e ∧ (executeCycle sem s).st.faulted = true ∧
    (executeCycle sem s).st.lastFault = some e ∧
    (executeCycle sem s).st = (recordFault sem (p (runPhases pre s).st).st e).st ∧
    (executeCycle sem s).evs = Ev.cycleStart ::
      ((runPhases pre s).evs ++ (p (runPhases pre s).st).evs ++
        (recordFault sem (p (runPhases pre s).st).st e).evs) := by
  have hff := runPhases_first_failure pre post p s e hpre hp
  rw [← hsplit] at hff
  have hout := c08_cycle_outcome sem s hs
  simp only [hff.1] at hout
  obtain ⟨h1, h2, h3, h4, h5⟩ := hout
  refine ⟨h1, h4, h5, ?_, ?_⟩
  · rw [h2, hff.2.1]
  · rw [h3, hff.2.1, hff.2.2]

/-- Conversely a cycle that returns an error other than the refusal did so because exactly one
phase failed with that error after all earlier ones succeeded (no fault is invented). -/
theorem c08_fault_sources_complete (sem : Sem σ δ) (s : RState σ δ) (hs : s.faulted = false) (e : Err)
    (h : (executeCycle sem s).err = some e) :
    ∃ pre p post, cyclePhases sem = pre ++ p :: post ∧ (runPhases pre s).err = none ∧
      (p (runPhases pre s).st).err = some e := by
  have hout := c08_cycle_outcome sem s hs
  cases hr : (runPhases (cyclePhases sem) s).err with
  | none => simp only [hr] at hout; rw [hout.1] at h; cases h
  | some e' =>
    simp only [hr] at hout
    rw [hout.1] at h
    injection h with h; subst h
    exact runPhases_err_split _ s e' hr

/-- **Fault sources, component level**: what makes each phase fail.
* driver reads: the first driver whose `read_inputs` fails (later drivers are not asked);
* queued debug writes, forced I/O values (before the latch and again after the publish): the
  first rejected write;
* latch / publish: the error of `IoInterface::read_inputs` / `write_outputs`;
* tasks and programs: an error of `collect_ready_tasks`, else the first program of the plan that
  faults — at whatever statement, however deeply nested: `exec` is arbitrary — (later programs
  do not start);
* driver writes: the first driver whose `write_outputs` fails;
* retain save: the error of the store. -/
theorem c08_phase_errors (sem : Sem σ δ) (s : RState σ δ) :
    (phaseRead sem s).err = (readDrivers sem (List.range sem.nDrivers) s.env s.io.inputs).err ∧
    (phaseDebug s).err = (applyWrites s.dbgQ s.io).2 ∧
    (phaseVarWrites sem s).err = none ∧
    (phaseForce sem s).err = (applyWrites s.forced s.io).2 ∧
    (phaseLatch sem s).err = (sem.latch s.io s.store).2 ∧
    (phaseTasks sem s).err =
      (match (sem.plan s.now s.store).2.2 with
       | some e => some e
       | none => (runPlan sem s.now (sem.plan s.now s.store).2.1 (sem.plan s.now s.store).1).2.2) ∧
    (phasePublish sem s).err = (sem.publish s.store s.io).2 ∧
    (phaseWrite sem s).err = (writeDrivers sem (List.range sem.nDrivers) s.env s.io.outputs).err ∧
    (phasePersist sem s).err = (sem.persist s.now s.store s.env).2 := by
  refine ⟨rfl, rfl, rfl, ?_, rfl, ?_, rfl, rfl, rfl⟩
  · cases h : (applyWrites s.forced s.io).2 <;> simp [phaseForce, h]
  · cases h : (sem.plan s.now s.store).2.2 <;> simp [phaseTasks, h]

/-- A runtime error in **any** program of the plan — first, middle or last task, background
program — is reported by the plan; the programs after it execute nothing. -/
theorem c08_source_program (sem : Sem σ δ) (now : Int) (pre post : List Nat) (p : Nat) (st : σ) (e : Err)
    (hpre : (runPlan sem now pre st).2.2 = none)
    (hp : (sem.exec now p (runPlan sem now pre st).1).2.2 = some e) :
    (runPlan sem now (pre ++ p :: post) st).2.2 = some e ∧
    (runPlan sem now (pre ++ p :: post) st).2.1 =
      (runPlan sem now pre st).2.1 ++ [Ev.prog p (sem.exec now p (runPlan sem now pre st).1).2.1] :=
  let h := runPlan_first_failure sem now pre post p st e hpre hp
  ⟨h.1, h.2.2⟩

/-- An error of **any** driver's `read_inputs` is reported by the latch loop. -/
theorem c08_source_driver_read (sem : Sem σ δ) (pre post : List Nat) (d : Nat) (env : δ) (img : List Nat)
    (e : Err) (hpre : (readDrivers sem pre env img).err = none)
    (hd : (sem.drvRead d (readDrivers sem pre env img).env (readDrivers sem pre env img).img).2.2 = some e) :
    (readDrivers sem (pre ++ d :: post) env img).err = some e ∧
    (readDrivers sem (pre ++ d :: post) env img).evs = (pre ++ [d]).map Ev.drvRead :=
  readDrivers_first_failure sem pre post d env img e hpre hd

/-- An error of **any** driver's `write_outputs` is reported by the publish loop. -/
theorem c08_source_driver_write (sem : Sem σ δ) (pre post : List Nat) (d : Nat) (env : δ) (img : List Nat)
    (e : Err) (hpre : (writeDrivers sem pre env img).err = none)
    (hd : (sem.drvWrite d (writeDrivers sem pre env img).env img).2 = some e) :
    (writeDrivers sem (pre ++ d :: post) env img).err = some e ∧
    (writeDrivers sem (pre ++ d :: post) env img).evs = (pre ++ [d]).map (fun d => Ev.drvWrite d img) :=
  writeDrivers_first_failure sem pre post d env img e hpre hd

/-! ## The safe image -/

/-- What "safe state forced and delivered before the fault is reported" means for the result `r`
of an operation that reported `e`, with `n` drivers and safe-state map `safe`:
1. every entry whose value has the size of its address, and which no later entry of the map
   overwrites, reads back its safe value from the image;
2. the last image every driver was handed is the final output image (drivers whose
   `write_outputs` failed included: they were called with it);
3. the events end with: that image to driver 0, …, to driver `n-1`, then the `Fault` event —
   delivery precedes the report, and nothing else happens in between;
4. the resource is faulted with `e` as last fault. -/
def SafeDelivered (n : Nat) (safe : List (Addr × Value)) (r : PRes σ δ) (e : Err) : Prop :=
  (∀ i (hi : i < safe.length), fits safe[i].1 safe[i].2 = true →
      (∀ j (hj : j < safe.length), i < j → harmless safe[i].1 safe[j] = true) →
      r.st.io.read safe[i].1 = .ok safe[i].2) ∧
  (∀ d, d < n → lastWrite d r.evs = some r.st.io.outputs) ∧
  (∃ pre, r.evs = pre ++ ((List.range n).map (fun d => Ev.drvWrite d r.st.io.outputs) ++ [Ev.fault e])) ∧
  r.st.faulted = true ∧ r.st.lastFault = some e

/-- **Safe image (at `apply_fault`).**  Whenever the decision applies safe state, after
`apply_fault` every fitting, not-overwritten entry of the safe-state map holds its safe value in
the image, every driver's last received image is that output image, and the deliveries precede
the `Fault` event.  No hypothesis on the drivers: a driver whose `write_outputs` fails does not
keep the others from receiving the image; no hypothesis on the other entries: an entry that
cannot be written does not keep the others from being applied. -/
theorem c08_safe_image (sem : Sem σ δ) (s : RState σ δ) (e : Err) (dec : FaultDecision)
    (h : dec.applySafeState = true) :
    SafeDelivered sem.nDrivers s.safe (applyFault sem s e dec) e := by
  obtain ⟨hio, hevs, _⟩ := applyFault_safe sem s e dec h
  have hl := c08_apply_fault_latches sem s e dec
  refine ⟨?_, ?_, ⟨[], ?_⟩, hl.1, hl.2.1⟩
  · intro i hi hf hlater
    rw [hio]
    exact applySafeEntries_read s.safe s.io i hi hf hlater
  · intro d hd
    rw [hevs, hio]
    have := lastWrite_tail d sem.nDrivers hd (applySafeEntries s.safe s.io).1.outputs [] e
    simpa using this
  · rw [hevs, hio]; rfl

/-- **Safe image (cycle level).**  Fault policy `safe_halt`: whenever a cycle on a non-faulted
resource reports an error — from whichever phase, driver or program — the safe image is forced
and delivered to every driver before the fault is reported. -/
theorem c08_cycle_safe_halt (sem : Sem σ δ) (s : RState σ δ) (hs : s.faulted = false)
    (hp : s.policy = .safeHalt) (e : Err) (he : (executeCycle sem s).err = some e) :
    SafeDelivered sem.nDrivers s.safe (executeCycle sem s) e := by
  have hctl := runPhases_sameCtl (cyclePhases sem) (cyclePhases_sameCtl sem) s
  have hout := c08_cycle_outcome sem s hs
  cases hr : (runPhases (cyclePhases sem) s).err with
  | none => simp only [hr] at hout; rw [hout.1] at he; cases he
  | some e' =>
    simp only [hr] at hout
    obtain ⟨h1, h2, h3, _, _⟩ := hout
    rw [h1] at he; injection he with he; subst he
    have hdec : (FaultDecision.fromFaultPolicy (runPhases (cyclePhases sem) s).st.policy).applySafeState = true := by
      rw [hctl.policy, hp]; rfl
    have hsd := c08_safe_image sem (runPhases (cyclePhases sem) s).st e'
      (FaultDecision.fromFaultPolicy (runPhases (cyclePhases sem) s).st.policy) hdec
    rw [hctl.safe] at hsd
    obtain ⟨a1, a2, ⟨pre, a3⟩, a4, a5⟩ := hsd
    have hst : (executeCycle sem s).st =
        (applyFault sem (runPhases (cyclePhases sem) s).st e'
          (FaultDecision.fromFaultPolicy (runPhases (cyclePhases sem) s).st.policy)).st := h2
    have hevs : (executeCycle sem s).evs = (Ev.cycleStart :: (runPhases (cyclePhases sem) s).evs ++ pre) ++
        ((List.range sem.nDrivers).map (fun d => Ev.drvWrite d (executeCycle sem s).st.io.outputs) ++ [Ev.fault e']) := by
      rw [h3, hst]
      simp only [recordFault]
      rw [a3]
      simp
    refine ⟨?_, ?_, ⟨_, hevs⟩, ?_, ?_⟩
    · rw [hst]; exact a1
    · intro d hd
      rw [hevs]
      exact lastWrite_tail d sem.nDrivers hd _ _ e'
    · rw [hst]; exact a4
    · rw [hst]; exact a5

/-- **Safe image (watchdog, simulation fault).**  A watchdog timeout with action `halt` or
`safe_halt`, and a simulation fault under fault policy `safe_halt`, force and deliver the safe
image before they report — whether or not the resource was already faulted. -/
theorem c08_fault_op_safe (sem : Sem σ δ) (s : RState σ δ) :
    (s.wdAction ≠ .restart → SafeDelivered sem.nDrivers s.safe (step sem s .watchdog) .watchdogTimeout) ∧
    (s.policy = .safeHalt → SafeDelivered sem.nDrivers s.safe (step sem s .simFault) .simulationFault) := by
  constructor
  · intro h
    have : (FaultDecision.fromWatchdog s.wdAction).applySafeState = true := by
      cases hw : s.wdAction <;> simp_all [FaultDecision.fromWatchdog]
    exact c08_safe_image sem s .watchdogTimeout _ this
  · intro h
    have : (FaultDecision.fromFaultPolicy s.policy).applySafeState = true := by rw [h]; rfl
    exact c08_safe_image sem s .simulationFault _ this

/-- For a flat `%Q` address the read-back is a function of the output bytes alone, so what holds
in the image holds in the bytes every driver received. -/
theorem c08_safe_bytes (io : Io) (a : Addr) (v : Value) (hq : a.area = .output)
    (hflat : ¬ a.path.length > 1) (h : io.read a = .ok v) : readFlat io.outputs a = v := by
  unfold Io.read at h
  by_cases hw : a.wildcard = true
  · simp [hw] at h
  · simp only [hw, hflat, if_false, hq, Io.area] at h
    injection h

/-- Pairwise non-overlapping, fitting safe-state maps are applied completely. -/
theorem c08_safe_image_all (sem : Sem σ δ) (s : RState σ δ) (e : Err) (dec : FaultDecision)
    (h : dec.applySafeState = true) (hfit : ∀ p ∈ s.safe, fits p.1 p.2 = true)
    (hdis : s.safe.Pairwise (fun p q => indep p.1 q.1 = true)) :
    ∀ p ∈ s.safe, (applyFault sem s e dec).st.io.read p.1 = .ok p.2 := by
  intro p hp
  obtain ⟨i, hi, rfl⟩ := List.getElem_of_mem hp
  refine (c08_safe_image sem s e dec h).1 i hi (hfit _ (List.getElem_mem hi)) ?_
  intro j hj hij
  have := List.pairwise_iff_getElem.1 hdis i j hi hj hij
  simp [harmless, this]

/-- Without a safe-state decision (`halt`, `restart`) a fault touches neither the image nor any
driver: the only event is the `Fault` report. -/
theorem c08_no_safe_state (sem : Sem σ δ) (s : RState σ δ) (e : Err) (dec : FaultDecision)
    (h : dec.applySafeState = false) :
    (applyFault sem s e dec).evs = [Ev.fault e] ∧ (applyFault sem s e dec).st.io = s.io ∧
    (applyFault sem s e dec).st.env = s.env := by
  simp [applyFault, h]

/-! ## The resource thread -/

/-- Safe image after events `pre` followed by `apply_fault` with a safe-state decision. -/
theorem c08_safe_after (sem : Sem σ δ) (s0 : RState σ δ) (pre : List Ev) (e : Err) (dec : FaultDecision)
    (h : dec.applySafeState = true) :
    SafeDelivered sem.nDrivers s0.safe
      { st := (applyFault sem s0 e dec).st, evs := pre ++ (applyFault sem s0 e dec).evs, err := some e } e := by
  obtain ⟨a1, _, ⟨p2, a3⟩, a4, a5⟩ := c08_safe_image sem s0 e dec h
  refine ⟨a1, ?_, ⟨pre ++ p2, ?_⟩, a4, a5⟩
  · intro d hd
    simp only []
    rw [a3, ← List.append_assoc]
    exact lastWrite_tail d sem.nDrivers hd _ _ _
  · simp only []
    rw [a3]; simp

/-- A warm restart that succeeds reports no error and leaves the runtime not faulted. -/
theorem restart_ok (sem : Sem σ δ) (hre : ∀ st, (sem.reinit .warm st).2 = none) (s : RState σ δ) :
    (step sem s (.restart .warm)).err = none ∧ (step sem s (.restart .warm)).st.faulted = false := by
  simp [step, hre]

/-- **The resource thread (`run_resource_loop`) and the latch.**  Started on a runtime that is not
faulted, one iteration — whatever the cycle, the post-cycle simulation step and the watchdog do —
either lets the thread go on, and then the runtime is again not faulted (the cycle succeeded, or
the error / watchdog overrun was answered by a warm restart because the policy / action is
`restart`), or ends the thread in `Faulted` with `last_error = e`, and then the runtime is faulted
with `e` latched.  So the thread never asks a faulted runtime for a cycle, and never runs a cycle
after a fault without a restart in between.  Guard `hre`: the warm restarts the thread performs
succeed (a failing one ends the thread without `apply_fault`: finding C08-runner-restart-failure). -/
theorem c08_runner_iter (sem : Sem σ δ) (hre : ∀ st, (sem.reinit .warm st).2 = none)
    (s : RState σ δ) (t : Int) (wdEnabled over : Bool) (post : Option Err) (hs : s.faulted = false) :
    ((runnerIter sem s t wdEnabled over post).err = none →
      (runnerIter sem s t wdEnabled over post).st.faulted = false) ∧
    (∀ e, (runnerIter sem s t wdEnabled over post).err = some e →
      (runnerIter sem s t wdEnabled over post).st.faulted = true ∧
      (runnerIter sem s t wdEnabled over post).st.lastFault = some e) := by
  have hs0 : ({ s with now := t } : RState σ δ).faulted = false := hs
  have hout := c08_cycle_outcome sem { s with now := t } hs0
  simp only [runnerIter]
  cases hr : (runPhases (cyclePhases sem) { s with now := t }).err with
  | some e =>
    simp only [hr] at hout
    obtain ⟨h1, _, _, h4, h5⟩ := hout
    simp only [h1]
    split
    · exact ⟨fun _ => (restart_ok sem hre _).2, fun e' h => by rw [(restart_ok sem hre _).1] at h; cases h⟩
    · refine ⟨fun h => by simp at h, fun e' h => ?_⟩
      simp only [Option.some.injEq] at h
      subst h
      exact ⟨h4, h5⟩
  | none =>
    simp only [hr] at hout
    obtain ⟨h1, _, h3, _⟩ := hout
    simp only [h1]
    cases post with
    | some e0 =>
      simp only []
      have hl := c08_apply_fault_latches sem (executeCycle sem { s with now := t }).st .simulationFault
        (FaultDecision.fromFaultPolicy (executeCycle sem { s with now := t }).st.policy)
      split
      · exact ⟨fun _ => (restart_ok sem hre _).2, fun e' h => by rw [(restart_ok sem hre _).1] at h; cases h⟩
      · refine ⟨fun h => by simp at h, fun e' h => ?_⟩
        simp only [Option.some.injEq] at h
        subst h
        exact ⟨hl.1, hl.2.1⟩
    | none =>
      simp only []
      split
      · split
        · exact ⟨fun _ => (restart_ok sem hre _).2, fun e' h => by rw [(restart_ok sem hre _).1] at h; cases h⟩
        · refine ⟨fun h => by simp at h, fun e' h => ?_⟩
          simp only [Option.some.injEq] at h
          subst h
          have := c08_apply_fault_latches sem (executeCycle sem { s with now := t }).st .watchdogTimeout
            (FaultDecision.fromWatchdog (executeCycle sem { s with now := t }).st.wdAction)
          exact ⟨this.1, this.2.1⟩
      · exact ⟨fun _ => h3, fun e' h => by simp at h⟩

/-- The same over any number of iterations (induction), for every sequence of post-cycle results:
while the thread runs, the runtime is not faulted at the start of any iteration; when the thread
ends in `Faulted`, the fault is latched. -/
theorem c08_runner_loop (sem : Sem σ δ) (hre : ∀ st, (sem.reinit .warm st).2 = none) (interval : Int)
    (wdEnabled over : Bool) (posts : Nat → Option Err) (n : Nat) (s : RState σ δ) (t : Int)
    (hs : s.faulted = false) :
    ((runnerLoop sem interval wdEnabled over posts n s t).err = none →
      (runnerLoop sem interval wdEnabled over posts n s t).st.faulted = false) ∧
    (∀ e, (runnerLoop sem interval wdEnabled over posts n s t).err = some e →
      (runnerLoop sem interval wdEnabled over posts n s t).st.faulted = true ∧
      (runnerLoop sem interval wdEnabled over posts n s t).st.lastFault = some e) := by
  induction n generalizing s t with
  | zero => exact ⟨fun _ => hs, fun e h => by simp [runnerLoop] at h⟩
  | succ n ih =>
    have hi := c08_runner_iter sem hre s t wdEnabled over (posts n) hs
    simp only [runnerLoop]
    cases hr : (runnerIter sem s t wdEnabled over (posts n)).err with
    | some e =>
      simp only []
      refine ⟨fun h => by simp [hr] at h, fun e' h => ?_⟩
      exact hi.2 e' h
    | none =>
      simp only []
      exact ih _ _ (hi.1 hr)

/-- **Safe image when the thread ends.**  If the iteration ends the thread because the cycle
failed and the fault policy is `safe_halt`, or because the post-cycle simulation step failed and
the fault policy is `safe_halt`, or because the watchdog tripped and its action is `halt` or
`safe_halt`, the safe image was forced and delivered to every driver before the thread reported
`Faulted`. -/
theorem c08_runner_safe (sem : Sem σ δ) (s : RState σ δ) (t : Int) (wdEnabled over : Bool)
    (post : Option Err) (hs : s.faulted = false) :
    (∀ e, (executeCycle sem { s with now := t }).err = some e → s.policy = .safeHalt →
      SafeDelivered sem.nDrivers s.safe (runnerIter sem s t wdEnabled over post) e) ∧
    ((executeCycle sem { s with now := t }).err = none → post.isSome = true → s.policy = .safeHalt →
      SafeDelivered sem.nDrivers s.safe (runnerIter sem s t wdEnabled over post) .simulationFault) ∧
    ((executeCycle sem { s with now := t }).err = none → post = none → (wdEnabled && over) = true →
      s.wdAction ≠ .restart →
      SafeDelivered sem.nDrivers s.safe (runnerIter sem s t wdEnabled over post) .watchdogTimeout) := by
  have hs0 : ({ s with now := t } : RState σ δ).faulted = false := hs
  have hout := c08_cycle_outcome sem { s with now := t } hs0
  have hctl := runPhases_sameCtl (cyclePhases sem) (cyclePhases_sameCtl sem) { s with now := t }
  refine ⟨?_, ?_, ?_⟩
  · intro e hc hp
    have hsd := c08_cycle_safe_halt sem { s with now := t } hs0 hp e hc
    have hne : ¬ (executeCycle sem { s with now := t }).st.policy = .restart := by
      cases hr : (runPhases (cyclePhases sem) { s with now := t }).err with
      | none => simp only [hr] at hout; rw [hout.1] at hc; cases hc
      | some e2 =>
        simp only [hr] at hout
        rw [hout.2.1]
        simp only [recordFault]
        rw [(applyFault_ctl sem _ e2 _).1, hctl.policy]
        simp [hp]
    simp only [runnerIter, hc, hne, if_false]
    exact hsd
  · intro hc hpost hp
    cases hr : (runPhases (cyclePhases sem) { s with now := t }).err with
    | some e2 => simp only [hr] at hout; rw [hout.1] at hc; cases hc
    | none =>
      simp only [hr] at hout
      have hpol : (executeCycle sem { s with now := t }).st.policy = .safeHalt := by
        rw [hout.2.1]; exact hctl.policy.trans hp
      have hsafe : (executeCycle sem { s with now := t }).st.safe = s.safe := by
        rw [hout.2.1]; exact hctl.safe
      cases post with
      | none => simp at hpost
      | some e0 =>
        have hfp : ¬ (applyFault sem (executeCycle sem { s with now := t }).st .simulationFault
            (FaultDecision.fromFaultPolicy (executeCycle sem { s with now := t }).st.policy)).st.policy = .restart := by
          rw [(applyFault_ctl sem _ _ _).1, hpol]; simp
        simp only [runnerIter, hc, hfp, if_false]
        have hdec : (FaultDecision.fromFaultPolicy (executeCycle sem { s with now := t }).st.policy).applySafeState = true := by
          rw [hpol]; rfl
        have := c08_safe_after sem (executeCycle sem { s with now := t }).st
          (executeCycle sem { s with now := t }).evs .simulationFault _ hdec
        rw [hsafe] at this
        exact this
  · intro hc hpost hwo hw
    subst hpost
    cases hr : (runPhases (cyclePhases sem) { s with now := t }).err with
    | some e2 => simp only [hr] at hout; rw [hout.1] at hc; cases hc
    | none =>
      simp only [hr] at hout
      have hwd : (executeCycle sem { s with now := t }).st.wdAction = s.wdAction := by
        rw [hout.2.1]; exact hctl.wdAction
      have hsafe : (executeCycle sem { s with now := t }).st.safe = s.safe := by
        rw [hout.2.1]; exact hctl.safe
      have hnr : ¬ (executeCycle sem { s with now := t }).st.wdAction = .restart := by rw [hwd]; exact hw
      simp only [runnerIter, hc, hwo, if_true, hnr, if_false]
      have hdec : (FaultDecision.fromWatchdog (executeCycle sem { s with now := t }).st.wdAction).applySafeState = true := by
        rw [hwd]; cases hh : s.wdAction <;> simp_all [FaultDecision.fromWatchdog]
      have := c08_safe_after sem (executeCycle sem { s with now := t }).st
        (executeCycle sem { s with now := t }).evs .watchdogTimeout _ hdec
      rw [hsafe] at this
      exact this

/-- **Restart request — partial: the retain store loads.**  Serving an external restart request
leaves the thread running on a runtime that is not faulted.  Guards: the restart succeeds and
`loadErr = none`: see
`c08_counterexample_restart_load`. -/
theorem c08_runner_restart_signal_partial (sem : Sem σ δ) (s : RState σ δ) (m : RestartMode)
    (hre : (sem.reinit m s.store).2 = none) :
    (runnerRestartSignal sem s m none).err = none ∧
    (runnerRestartSignal sem s m none).st.faulted = false := by
  simp [runnerRestartSignal, step, hre]

/-! ## Non-vacuity -/

/-- A toy application: two drivers (driver 0 fails every `write_outputs` once the environment —
it counts driver calls — has reached 10, driver 1 every `read_inputs` once it has reached 100), one program that faults with `DivisionByZero` when the
variable (a counter) is 2. -/
def toy : Sem Nat Nat where
  nDrivers := 2
  drvRead := fun d env img => (env + 1, img, if d = 1 ∧ env ≥ 100 then some (.ioDriverRead 1) else none)
  drvWrite := fun d env _ => (env + 1, if d = 0 ∧ env ≥ 10 then some (.ioDriverWrite 0) else none)
  latch := fun _ st => (st, none)
  plan := fun _ st => (st, [0], none)
  exec := fun _ _ st => (st + 1, 1, if st = 2 then some .divisionByZero else none)
  publish := fun _ io => (io, none)
  persist := fun _ _ env => (env, none)
  reinit := fun m st => if m = .warm ∧ st = 3 then (7, some .divisionByZero) else (0, none)
  poke := fun _ v _ => v.toNat

def toyAddr : Addr := { area := .output, size := .byte, byte := 1, bit := 0, path := [1], wildcard := false }
def toyBad : Addr := { area := .output, size := .word, byte := 0, bit := 0, path := [], wildcard := true }

def toyState : RState Nat Nat :=
  { faulted := false, lastFault := none, policy := .safeHalt, wdAction := .safeHalt,
    safe := [(toyBad, .byte 1), (toyAddr, .byte 90)],
    io := { inputs := [], outputs := [], memory := [], hier := [] }, store := 0, env := 0, dbgQ := [],
    forced := [], varQ := [], lvalQ := [], forcedVars := [], now := 0, cycles := 0 }

/-- The hypotheses of the theorems above are satisfiable, and the witness of the repaired defect
behaves: two cycles succeed, the third faults with `DivisionByZero`; although the first
safe-state entry cannot be written (wildcard) and driver 0 fails its `write_outputs`, the second
entry is in the image (`%QB1 = 90`) and driver 1 received that image before the `Fault` event;
the next cycle is refused. -/
example :
    let s3 := run toy toyState [.cycle, .cycle]
    let r := step toy s3 .cycle
    s3.faulted = false ∧ s3.cycles = 2 ∧ r.err = some .divisionByZero ∧ r.st.faulted = true ∧
    fits toyAddr (.byte 90) = true ∧ r.st.io.read toyAddr = .ok (.byte 90) ∧
    r.evs = [.cycleStart, .drvRead 0, .drvRead 1, .prog 0 1, .drvWrite 0 [0, 90], .drvWrite 1 [0, 90],
             .fault .divisionByZero] ∧
    (step toy r.st .cycle).err = some .resourceFaulted ∧ (step toy r.st .cycle).evs = [] := by
  intro s3 r
  exact ⟨rfl, rfl, rfl, rfl, rfl, rfl, rfl, rfl, rfl⟩

/-- Pending debugger writes on the toy application (its `poke` overwrites the counter): queued
while the resource is faulted they wait — the variable keeps its value 3 over refused cycles and
the queue holds the (replaced) write — and the first cycle after `clear_fault` applies them: the
counter is set to 0, the program runs (1) and the queues are empty although that cycle then faults
in its publish phase (driver 0). -/
example :
    let f := (step toy (run toy toyState [.cycle, .cycle]) .cycle).st
    let w := run toy f [.varWrite 7 5, .cycle, .lvalWrite 8 0, .varWrite 7 9, .cycle, .cycle]
    let c := (step toy (step toy w .clearFault).st .cycle).st
    f.faulted = true ∧ f.store = 3 ∧ w.faulted = true ∧ w.store = 3 ∧ w.varQ = [(7, 9)] ∧
    w.lvalQ = [(8, 0)] ∧ c.store = 1 ∧ c.varQ = [] ∧ c.lvalQ = [] ∧
    c.lastFault = some (.ioDriverWrite 0) := by
  intro f w c
  exact ⟨rfl, rfl, rfl, rfl, rfl, rfl, rfl, rfl, rfl, rfl⟩

example : (∀ op ∈ [Op.cycle, .advance 5, .watchdog, .cycle, .setPolicy .halt, .simFault, .cycle],
    op.resets = false) := by decide

example : cyclePhases toy = [phaseVarWrites toy, phaseRead toy, phaseDebug, phaseForce toy, phaseLatch toy] ++
    phaseTasks toy :: [phasePublish toy, phaseForce toy, phaseWrite toy, phasePersist toy] := rfl

/-- Hypotheses of `c08_fault_sources`: in the third cycle the five phases before the task phase
succeed and the task phase fails. -/
example :
    let s3 := run toy toyState [.cycle, .cycle]
    let pre : List (Phase Nat Nat) := [phaseVarWrites toy, phaseRead toy, phaseDebug, phaseForce toy, phaseLatch toy]
    s3.faulted = false ∧ (runPhases pre s3).err = none ∧
    (phaseTasks toy (runPhases pre s3).st).err = some .divisionByZero := by
  intro s3 pre
  exact ⟨rfl, rfl, rfl⟩

/-- Hypotheses of `c08_source_program`, `c08_source_driver_read`, `c08_source_driver_write`. -/
example :
    (runPlan toy 0 [0] 1).2.2 = none ∧ (toy.exec 0 0 (runPlan toy 0 [0] 1).1).2.2 = some .divisionByZero ∧
    (readDrivers toy [0] 100 []).err = none ∧
    (toy.drvRead 1 (readDrivers toy [0] 100 []).env (readDrivers toy [0] 100 []).img).2.2 = some (.ioDriverRead 1) ∧
    (writeDrivers toy [1] 10 []).err = none ∧
    (toy.drvWrite 0 (writeDrivers toy [1] 10 []).env []).2 = some (.ioDriverWrite 0) :=
  ⟨rfl, rfl, rfl, rfl, rfl, rfl⟩

/-- Hypotheses of `c08_safe_image_all` (a fitting, pairwise non-overlapping map), of
`c08_no_safe_state`, `c08_restart_clears` and `c08_fault_op_safe`. -/
example :
    let safe : List (Addr × Value) :=
      [(toyAddr, .byte 90),
       ({ area := .output, size := .bit, byte := 0, bit := 3, path := [0], wildcard := false }, .bool true),
       ({ area := .output, size := .bit, byte := 0, bit := 4, path := [0], wildcard := false }, .bool false),
       ({ area := .output, size := .word, byte := 4, bit := 0, path := [4], wildcard := false }, .word 4660)]
    (∀ p ∈ safe, fits p.1 p.2 = true) ∧ safe.Pairwise (fun p q => indep p.1 q.1 = true) ∧
    (FaultDecision.fromFaultPolicy .halt).applySafeState = false ∧ Op.resets (.restart .warm) = true ∧
    toyState.wdAction ≠ .restart ∧ toyState.policy = .safeHalt := by
  decide

/-- The resource thread on the toy application: it runs two cycles, ends in `Faulted` with
`DivisionByZero` in the third although five were allowed, and the safe value is in the image. -/
example :
    let r := runnerLoop toy 10 false false (fun _ => none) 5 toyState 0
    r.err = some .divisionByZero ∧ r.st.faulted = true ∧ r.st.cycles = 2 ∧
    r.st.io.read toyAddr = .ok (.byte 90) := by
  intro r
  exact ⟨rfl, rfl, rfl, rfl⟩

/-- … with a watchdog that trips on every cycle (action `safe_halt`) the first iteration ends the
thread with `WatchdogTimeout` after a successful cycle; with a failing post-cycle simulation step
(policy `safe_halt`) it ends with `SimulationFault`, latched, and the safe value is in the image
(the witness of the repaired finding C08-runner-post-cycle). -/
example :
    (runnerIter toy toyState 0 true true none).err = some .watchdogTimeout ∧
    (executeCycle toy { toyState with now := 0 }).err = none ∧ toyState.wdAction ≠ .restart ∧
    toyState.faulted = false ∧ toyState.policy = .safeHalt ∧
    (runnerIter toy toyState 0 false false (some .invalidIoAddress)).err = some .simulationFault ∧
    (runnerIter toy toyState 0 false false (some .invalidIoAddress)).st.faulted = true ∧
    (runnerIter toy toyState 0 false false (some .invalidIoAddress)).st.io.read toyAddr = .ok (.byte 90) :=
  ⟨rfl, rfl, by decide, rfl, rfl, rfl, rfl, rfl⟩

/-- A failed restart on the toy application (its warm restart fails when the counter is 3, leaving
7 behind): after the fault of the third cycle the restart attempt returns `DivisionByZero`, the
resource is still faulted, the storage is what the attempt left, and in the history
`restart, cycle, write, cycle` nothing releases the latch (hypotheses of `c08_failed_restart` and
`c08_latched_failed_restarts`); a cold restart succeeds and releases it. -/
example :
    let f := (step toy (run toy toyState [.cycle, .cycle]) .cycle).st
    f.faulted = true ∧ (toy.reinit .warm f.store).2 = some .divisionByZero ∧
    (step toy f (.restart .warm)).err = some .divisionByZero ∧
    (step toy f (.restart .warm)).st.faulted = true ∧ (step toy f (.restart .warm)).st.store = 7 ∧
    noRelease toy f [.restart .warm, .cycle, .varWrite 1 2, .cycle] ∧
    (toy.reinit .cold f.store).2 = none ∧ (step toy f (.restart .cold)).st.faulted = false := by
  intro f
  exact ⟨rfl, rfl, rfl, rfl, rfl, ⟨rfl, rfl, rfl, rfl, trivial⟩, rfl, rfl⟩

/-- The guard `hre` of the `c08_runner_*` theorems is satisfiable: the toy application with a
restart that always succeeds. -/
example : ∀ st, (({ toy with reinit := fun _ _ => (0, none) } : Sem Nat Nat).reinit .warm st).2 = none :=
  fun _ => rfl

/-- **Counterexample (finding C08-runner-restart-failure): the guard `loadErr = none` of
`c08_runner_restart_signal_partial` cannot be dropped.**  On the toy application under fault
policy `safe_halt`, after two good cycles, an external warm-restart request whose
`load_retain_store` fails ends the thread in `Faulted` with that error, but the runtime is NOT
faulted, nothing is latched, no driver is called (no event at all) and the fitting safe-state entry
`%QB1 = 90` is NOT in the image.  Replayed on the real `ResourceRunner` by
`vharness c08 --probe restartload`. -/
theorem c08_counterexample_restart_load :
    let s2 := run toy toyState [.cycle, .cycle]
    let r := runnerRestartSignal toy s2 .warm (some .retainStore)
    s2.faulted = false ∧ s2.policy = .safeHalt ∧ fits toyAddr (.byte 90) = true ∧
    r.err = some .retainStore ∧ r.st.faulted = false ∧ r.st.lastFault = none ∧ r.evs = [] ∧
    r.st.io.read toyAddr = .ok (.byte 0) := by
  intro s2 r
  exact ⟨rfl, rfl, rfl, rfl, rfl, rfl, rfl, rfl⟩

end TrustVerif.C08
