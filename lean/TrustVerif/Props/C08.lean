import TrustVerif.Lemmas.C08

namespace TrustVerif.C08

/-- The policy table: safe state is applied for fault policy `safe_halt` only … -/
theorem c08_policy_table_fault (p : FaultPolicy) :
    (FaultDecision.fromFaultPolicy p).applySafeState = true ↔ p = .safeHalt := by
  cases p <;> simp [FaultDecision.fromFaultPolicy]

end TrustVerif.C08
