import TrustVerif.Lemmas.C09

/-!
# C09 — restart semantics: warm keeps exactly RETAIN data, cold equals a fresh start

Property theorems only.  `Model/C09.lean` transcribes `Runtime::restart`, the storage, instance
creation, the retain snapshot and the build sequence; `WF` (Lemmas) is what the compiler guarantees
about names.  Clauses the code violates come as `c09_counterexample_*` (concrete witness, replayed on
the real runtime by the harness) and `*_partial` (true under an explicit guard).
-/
namespace TrustVerif.C09

/-! ## Warm restart: exactly the RETAIN / PERSISTENT variables keep their value -/

/-- **Warm clause, globals, kept.**  After `restart(Warm)` every declared global whose policy is
RETAIN or PERSISTENT has the value it had before the restart (whatever its type: a retained
FB-typed global keeps its instance). -/
theorem c09_warm_globals_kept (rt rt' : Runtime) (hwf : WF rt) (h : restart .warm rt = .ok rt')
    (m : GlobalMeta) (hm : m ∈ rt.globalsMeta) (hr : retainOnWarm m.retain = true)
    (v : Val) (hv : rt.storage.getGlobal m.name = some v) :
    rt'.storage.getGlobal m.name = some v := by
  obtain ⟨s1, s2, h1, _, _, _, hg⟩ := restart_getGlobal .warm rt rt' hwf h
  obtain ⟨_, _, t3⟩ := resetGlobals_spec rt.fbs _ _ rt.globalsMeta rt.storage s1 h1 hwf.globalsNodup
  have hp := t3 m hm
  unfold GlobalPost at hp
  rw [aget_retainedOf] at hp
  simp only [Mode.isWarm, hr, Bool.and_self, if_true, retainedVal_of_mem _ _ m hm hr, hv] at hp
  rw [hg m hm]; exact hp

/-- **Warm clause, globals, re-initialised.**  Every other declared global (NON_RETAIN or
unqualified) has its declared initial value after `restart(Warm)`. -/
theorem c09_warm_globals_reset (rt rt' : Runtime) (hwf : WF rt) (h : restart .warm rt = .ok rt')
    (m : GlobalMeta) (hm : m ∈ rt.globalsMeta) (hr : retainOnWarm m.retain = false)
    (v0 : Val) (hi : m.init = .value v0) :
    rt'.storage.getGlobal m.name = some v0 := by
  obtain ⟨s1, s2, h1, _, _, _, hg⟩ := restart_getGlobal .warm rt rt' hwf h
  obtain ⟨_, _, t3⟩ := resetGlobals_spec rt.fbs _ _ rt.globalsMeta rt.storage s1 h1 hwf.globalsNodup
  have hp := t3 m hm
  unfold GlobalPost at hp
  simp only [hr, Bool.and_false, Bool.false_eq_true, if_false, hi] at hp
  rw [hg m hm]; exact hp

/-- **Cold clause, globals.**  After `restart(Cold)` every declared global has its declared
initial value, whatever its qualifier. -/
theorem c09_cold_globals (rt rt' : Runtime) (hwf : WF rt) (h : restart .cold rt = .ok rt')
    (m : GlobalMeta) (hm : m ∈ rt.globalsMeta) (v0 : Val) (hi : m.init = .value v0) :
    rt'.storage.getGlobal m.name = some v0 := by
  obtain ⟨s1, s2, h1, _, _, _, hg⟩ := restart_getGlobal .cold rt rt' hwf h
  obtain ⟨_, _, t3⟩ := resetGlobals_spec rt.fbs _ _ rt.globalsMeta rt.storage s1 h1 hwf.globalsNodup
  have hp := t3 m hm
  unfold GlobalPost at hp
  simp only [Mode.isWarm, Bool.false_and, Bool.false_eq_true, if_false, hi] at hp
  rw [hg m hm]; exact hp

/-- **Program variables after any restart** (the common core of the warm and cold clauses for
program-level variables).  Variable `d` of program `p` in the LIVE instance has, after
`restart mode`: its pre-restart value if the mode is warm, its policy is RETAIN/PERSISTENT and
that value exists and is retainable (`value_is_retainable`: no FB instance / reference inside);
its declared initial value otherwise. -/
theorem c09_program_var (mode : Mode) (rt rt' : Runtime) (hwf : WF rt)
    (h : restart mode rt = .ok rt') (p : ProgDef) (hp : p ∈ rt.programs)
    (d : VarDef) (hd : d ∈ p.vars) (v0 : Val) (hi : d.init = .plain v0) :
    rt'.progVar p.name d.name =
      match (if mode.isWarm && retainOnWarm d.retain then
               (rt.progVar p.name d.name).filter Val.retainable else none) with
      | some v => some v
      | none => some v0 := by
  obtain ⟨s1, s2, h1, h2, h3, hg, _⟩ := restart_getGlobal mode rt rt' hwf h
  obtain ⟨_, _, t3⟩ := recreatePrograms_spec rt.fbs rt.programs s1 s2 h2 hwf.progsNodup hwf.varsNodup
  obtain ⟨id, hpost⟩ := t3 p hp
  have hdist := recreatePrograms_distinct rt.fbs rt.programs s1 s2 h2 hwf.progsNodup hwf.varsNodup
  -- the live instance after the restart
  have hlive : rt'.storage.getGlobal p.name = some (.inst id) := by rw [hg]; exact hpost.1
  have hinit : s2.getInstVar id d.name = some v0 := by
    have := hpost.2.2.2.2 d hd; simpa [hi] using this
  have hvar : rt'.progVar p.name d.name =
      (restoreProgVars s2 (retainedPvOf mode rt)).getInstVar id d.name := by
    unfold Runtime.progVar
    rw [hlive]
    simp only
    rw [h3]; rfl
  rw [hvar]
  -- every collected triple that addresses (id, d.name) carries the old value of (p, d)
  have triple : ∀ t, t ∈ retainedPvOf mode rt → s2.getGlobal t.1 = some (.inst id) → t.2.1 = d.name →
      mode.isWarm = true ∧ retainOnWarm d.retain = true ∧
      (rt.progVar p.name d.name) = some t.2.2 ∧ t.2.2.retainable = true := by
    intro t ht hres hname
    unfold retainedPvOf at ht
    cases hw : mode.isWarm with
    | false => simp [hw] at ht
    | true =>
      simp only [hw, if_true] at ht
      obtain ⟨q, hq, oid, hold, hmem⟩ := (mem_collectRetainedProgVars _ _ _).1 ht
      obtain ⟨hq1, d', hd', hn', hr', hv', hret'⟩ := (mem_collectProgVars _ _ _ _ _).1 hmem
      -- `q` is `p`
      have hqp : q.name = p.name := by
        apply hdist q p id hq hp _ hpost.1
        rw [← hq1]; exact hres
      have hqeq : q = p := nodup_map_inj (·.name) _ hwf.progsNodup q p hq hp hqp
      subst hqeq
      have hdd : d' = d := nodup_map_inj (·.name) _ (hwf.varsNodup q hq) d' d hd' hd (hn'.trans hname)
      subst hdd
      refine ⟨rfl, hr', ?_, hret'⟩
      unfold Runtime.progVar
      rw [hold]
      simp only
      exact hv'
  by_cases hex : ∃ t, t ∈ retainedPvOf mode rt ∧ s2.getGlobal t.1 = some (.inst id) ∧ t.2.1 = d.name
  · obtain ⟨t, ht, hres, hname⟩ := hex
    obtain ⟨hw, hr, hold, hret⟩ := triple t ht hres hname
    rw [restoreProgVars_value id d.name t.2.2 _ s2 hpost.2.2.2.1]
    · have : ∃ t, t ∈ retainedPvOf mode rt ∧ s2.getGlobal t.1 = some (.inst id) ∧ t.2.1 = d.name :=
        ⟨t, ht, hres, hname⟩
      simp only [this, if_true, hw, hr, Bool.and_self, hold, Option.filter, hret]
    · intro t' ht' hres' hname'
      obtain ⟨_, _, hold', _⟩ := triple t' ht' hres' hname'
      have := hold'.symm.trans hold
      injection this
  · rw [restoreProgVars_value id d.name v0 _ s2 hpost.2.2.2.1]
    · simp only [hex, if_false, hinit]
      -- nothing was collected: either cold, not retained, no old value, or not retainable
      cases hw : mode.isWarm with
      | false => simp
      | true =>
        cases hr : retainOnWarm d.retain with
        | false => simp
        | true =>
          simp only [Bool.and_self, if_true]
          cases hold : rt.progVar p.name d.name with
          | none => simp [Option.filter]
          | some v =>
            by_cases hret : v.retainable = true
            · exfalso
              apply hex
              -- the triple exists
              unfold Runtime.progVar at hold
              cases hgo : rt.storage.getGlobal p.name with
              | none => rw [hgo] at hold; cases hold
              | some w =>
                rw [hgo] at hold
                cases w with
                | inst oid =>
                  simp only at hold
                  refine ⟨(p.name, d.name, v), ?_, hpost.1, rfl⟩
                  unfold retainedPvOf
                  simp only [hw, if_true]
                  apply (mem_collectRetainedProgVars _ _ _).2
                  refine ⟨p, hp, oid, hgo, ?_⟩
                  apply (mem_collectProgVars _ _ _ _ _).2
                  exact ⟨rfl, d, hd, rfl, hr, hold, hret⟩
                | num _ _ => cases hold
                | str _ _ => cases hold
                | arr _ _ => cases hold
                | struct _ => cases hold
                | ref => cases hold
                | null => cases hold
            · simp [Option.filter, hret]
    · intro t' ht' hres' hname'
      exact absurd ⟨t', ht', hres', hname'⟩ hex

/-- **Warm clause, program variables, kept.** -/
theorem c09_warm_program_vars_kept (rt rt' : Runtime) (hwf : WF rt) (h : restart .warm rt = .ok rt')
    (p : ProgDef) (hp : p ∈ rt.programs) (d : VarDef) (hd : d ∈ p.vars) (v0 : Val)
    (hi : d.init = .plain v0) (hr : retainOnWarm d.retain = true)
    (v : Val) (hv : rt.progVar p.name d.name = some v) (hret : v.retainable = true) :
    rt'.progVar p.name d.name = some v := by
  rw [c09_program_var .warm rt rt' hwf h p hp d hd v0 hi]
  simp [Mode.isWarm, hr, hv, Option.filter, hret]

/-- **Warm clause, program variables, re-initialised.** -/
theorem c09_warm_program_vars_reset (rt rt' : Runtime) (hwf : WF rt) (h : restart .warm rt = .ok rt')
    (p : ProgDef) (hp : p ∈ rt.programs) (d : VarDef) (hd : d ∈ p.vars) (v0 : Val)
    (hi : d.init = .plain v0) (hr : retainOnWarm d.retain = false) :
    rt'.progVar p.name d.name = some v0 := by
  rw [c09_program_var .warm rt rt' hwf h p hp d hd v0 hi]
  simp [hr]

/-- **Cold clause, program variables.** -/
theorem c09_cold_program_vars (rt rt' : Runtime) (hwf : WF rt) (h : restart .cold rt = .ok rt')
    (p : ProgDef) (hp : p ∈ rt.programs) (d : VarDef) (hd : d ∈ p.vars) (v0 : Val)
    (hi : d.init = .plain v0) :
    rt'.progVar p.name d.name = some v0 := by
  rw [c09_program_var .cold rt rt' hwf h p hp d hd v0 hi]
  simp [Mode.isWarm]

/-- **FB-typed program variables are re-created by EVERY restart** (the general statement behind
the known finding on FB members).  Whatever the qualifier of the instance variable or of the
members inside the FB type, after `restart(Cold|Warm)` the variable holds a new instance whose
members show their initial values — `RETAIN` is without effect at this level.  (`hold`: the
variable held an instance handle before, which is never retainable.) -/
theorem c09_program_fb_recreated (mode : Mode) (rt rt' : Runtime) (hwf : WF rt)
    (h : restart mode rt = .ok rt') (p : ProgDef) (hp : p ∈ rt.programs) (d : VarDef)
    (hd : d ∈ p.vars) (ty : Nat) (hi : d.init = .fb ty)
    (hold : ∀ v, rt.progVar p.name d.name = some v → v.retainable = false) :
    ∃ fb, findFb rt.fbs ty = some fb ∧
      rt'.readProgPath p.name d.name none = some (.inst 0) ∧
      ∀ k, rt'.readProgPath p.name d.name (some k) = (aget (membersMap [] fb.members) k).map obsVal :=
  restart_program_fb mode rt rt' hwf h p hp d hd ty hi hold

/-- **Warm clause (`c09_warm`), all four statements together.**  After `restart(Warm)`:
(1) every RETAIN/PERSISTENT global keeps its value; (2) every other global with a value
initialiser has its declared initial value; (3) every RETAIN/PERSISTENT program variable whose
value is retainable keeps it; (4) every other program variable has its declared initial value. -/
theorem c09_warm (rt rt' : Runtime) (hwf : WF rt) (h : restart .warm rt = .ok rt') :
    (∀ m v, m ∈ rt.globalsMeta → retainOnWarm m.retain = true → rt.storage.getGlobal m.name = some v →
      rt'.storage.getGlobal m.name = some v) ∧
    (∀ m v0, m ∈ rt.globalsMeta → retainOnWarm m.retain = false → m.init = .value v0 →
      rt'.storage.getGlobal m.name = some v0) ∧
    (∀ p d v0 v, p ∈ rt.programs → d ∈ p.vars → d.init = .plain v0 → retainOnWarm d.retain = true →
      rt.progVar p.name d.name = some v → v.retainable = true → rt'.progVar p.name d.name = some v) ∧
    (∀ p d v0, p ∈ rt.programs → d ∈ p.vars → d.init = .plain v0 → retainOnWarm d.retain = false →
      rt'.progVar p.name d.name = some v0) :=
  ⟨fun m v hm hr hv => c09_warm_globals_kept rt rt' hwf h m hm hr v hv,
   fun m v0 hm hr hi => c09_warm_globals_reset rt rt' hwf h m hm hr v0 hi,
   fun p d v0 v hp hd hi hr hv hret => c09_warm_program_vars_kept rt rt' hwf h p hp d hd v0 hi hr v hv hret,
   fun p d v0 hp hd hi hr => c09_warm_program_vars_reset rt rt' hwf h p hp d hd v0 hi hr⟩

/-- **Reset clause.**  After any restart: time zero, fault latch cleared, cycle counter zero, no
frames, every task's scheduling state is what `register_task` would give for the re-initialised
storage (`last_single` seeded from the SINGLE variable, `last_run = 0`, no overruns);
declarations, bindings, access bindings, task table and retain configuration are untouched.
**Process images:** `restart(Warm)` leaves the %I/%Q/%M images exactly as they were (outputs keep
their last values until the next publish, %M-bound variables are reloaded from the marker image
at the next latch); `restart(Cold)` zero-fills all three and PRESERVES THEIR LENGTHS (the image is
sized once at start-up and an I/O driver delivers as many input bytes as the slice is long). -/
theorem c09_restart_resets (mode : Mode) (rt rt' : Runtime) (h : restart mode rt = .ok rt') :
    rt'.time = 0 ∧ rt'.fault = none ∧ rt'.cycleCounter = 0 ∧ rt'.storage.frames = 0 ∧
    rt'.taskState = rt.tasks.map (fun t => registerTaskState rt'.storage 0 t.single) ∧
    rt'.globalsMeta = rt.globalsMeta ∧ rt'.fbs = rt.fbs ∧ rt'.programs = rt.programs ∧
    rt'.tasks = rt.tasks ∧ rt'.io.bindings = rt.io.bindings ∧ rt'.access = rt.access ∧
    rt'.retain = rt.retain ∧
    (mode = .warm → rt'.io = rt.io) ∧
    (mode = .cold → rt'.io = rt.io.zeroImages ∧
      rt'.io.inputs = List.replicate rt.io.inputs.length 0 ∧
      rt'.io.outputs = List.replicate rt.io.outputs.length 0 ∧
      rt'.io.memory = List.replicate rt.io.memory.length 0) ∧
    rt'.driver = rt.driver := by
  obtain ⟨s1, s2, _, _, h3⟩ := restart_decompose mode rt rt' h
  subst h3
  refine ⟨rfl, rfl, rfl, rfl, rfl, rfl, rfl, rfl, rfl, ?_, rfl, rfl, ?_, ?_, rfl⟩
  · cases mode <;> simp [Mode.isWarm, Io.zeroImages]
  · intro hm; subst hm; simp [Mode.isWarm]
  · intro hm; subst hm
    simp [Mode.isWarm, Io.zeroImages, map_zero_eq_replicate]

/-! ## Power cycle with a retain store (save, new process, load) -/

/-- **Save clause: what `Ok` means.**  `save_retain_store` on a runtime whose manager is
consistent with the medium (`MgrConsistent`: what it remembers as written is the file — true after
`set_retain_store` and preserved by every save, see `c09_save_sequence`): if the call returns
`Ok`, the medium holds the snapshot of the state at that call — written now, or skipped because
the remembered (= stored) snapshot equals it under the manager's `==` — and consistency is kept. -/
theorem c09_save_ok_store (rt rt' : Runtime) (m : RetainMgr) (disk disk' : Disk)
    (hm : rt.retain = some m) (hc : MgrConsistent m disk)
    (h : saveRetainStore rt disk = (rt', disk', none)) :
    HoldsUpToEq disk' (retainSnapshot rt) ∧
    ∃ m', rt'.retain = some m' ∧ MgrConsistent m' disk' := by
  unfold saveRetainStore at h
  rw [hm] at h
  simp only at h
  cases hr : m.saveSnapshot (retainSnapshot rt) rt.time disk with
  | mk m' r =>
    obtain ⟨d', res⟩ := r
    rw [hr] at h
    simp only [Prod.mk.injEq] at h
    obtain ⟨h1, h2, h3⟩ := h
    subst h1; subst h2; subst h3
    obtain ⟨a, b⟩ := saveSnapshot_ok m m' _ _ disk d' hc hr
    exact ⟨a, m', rfl, b⟩

/-- **Save clause: a failed write changes nothing.**  If `save_retain_store` returns an error
(the medium rejected the write), neither the medium nor the manager's memory of what was written
(`last_snapshot`, `dirty`, `last_save`) moves — so the next save of the same values writes. -/
theorem c09_save_failure_changes_nothing (rt rt' : Runtime) (disk disk' : Disk) (e : Err)
    (h : saveRetainStore rt disk = (rt', disk', some e)) : rt' = rt ∧ disk' = disk := by
  unfold saveRetainStore at h
  cases hm : rt.retain with
  | none => rw [hm] at h; simp at h
  | some m =>
    rw [hm] at h
    simp only at h
    cases hr : m.saveSnapshot (retainSnapshot rt) rt.time disk with
    | mk m' r =>
      obtain ⟨d', res⟩ := r
      rw [hr] at h
      simp only [Prod.mk.injEq] at h
      obtain ⟨h1, h2, h3⟩ := h
      subst h3
      obtain ⟨a, b, _⟩ := saveSnapshot_err m m' _ _ disk d' e hr
      subst a; subst b
      exact ⟨by rw [← h1, ← hm], h2.symm⟩

/-- **Save clause over histories.**  Start from any consistent manager/medium pair (in particular
right after `set_retain_store`) and run ANY sequence of save calls — arbitrary retained values,
clock values, and an arbitrary pattern of failing and succeeding writes.  Afterwards the pair is
still consistent, and if the LAST call returned `Ok` the medium holds the snapshot passed to that
call (up to the manager's `==`). -/
theorem c09_save_sequence (calls : List SaveCall) (m : RetainMgr) (d : Disk)
    (hc : MgrConsistent m d) :
    MgrConsistent (runSaves m d calls).1 (runSaves m d calls).2.1 ∧
    ∀ c, calls.getLast? = some c → (runSaves m d calls).2.2 = some none →
      HoldsUpToEq (runSaves m d calls).2.1 c.snap :=
  runSaves_spec calls m d hc

/-- **Regression witness (a failed write must not be remembered as written).**  Witness 8: two
cycles, the medium rejects the save (`RetainStore` error), recovers, and the retry with the SAME
retained values returns `Ok` and the medium holds `gr = 2`.  (The harness replays this as cases 7
and 8 with a retain directory that appears later and with a scripted store.) -/
theorem c09_witness_failed_write_retried :
    W.failRetry8 = some (some .retainStore, none, some 2) := by decide

/-- **Power-cycle clause, partial (guard: the variable is a GLOBAL).**  The medium holds `f`,
entry-wise equal to the snapshot of runtime `rt` (what `c09_save_ok_store` provides after an `Ok`
save).  Load into ANY runtime `fr` with the same global declarations (the newly built process):
every RETAIN/PERSISTENT global whose saved value is retainable gets the saved value — the set a
warm restart keeps (`c09_warm_globals_kept`) — and every other global keeps what the new process
initialised it to. -/
theorem c09_power_cycle_globals_partial (rt fr : Runtime) (disk : Disk) (f : Snapshot)
    (hfile : disk.file = some f) (hnf : (keys f).Nodup)
    (hext : ∀ n, aget f n = aget (retainSnapshot rt) n) (hstore' : fr.retain.isSome)
    (hmeta : fr.globalsMeta = rt.globalsMeta) (hnd : (rt.globalsMeta.map (·.name)).Nodup)
    (m : GlobalMeta) (hm : m ∈ rt.globalsMeta) :
    (loadRetainStore fr disk).storage.getGlobal m.name =
      match (if retainOnWarm m.retain then (rt.storage.getGlobal m.name).filter Val.retainable
             else none) with
      | some v => some v
      | none => fr.storage.getGlobal m.name := by
  cases hr' : fr.retain with
  | none => simp [hr'] at hstore'
  | some cfg' =>
    simp only [loadRetainStore, hr', hfile, applyRetainSnapshot]
    rw [applySnapshotAux_spec _ _ _ _ hnf, hext]
    simp only [retainSnapshot]
    rw [aget_retainSnapshotAux, hmeta, findMeta_of_mem _ hnd m hm]
    by_cases hret : retainOnWarm m.retain = true
    · rw [snapVal_of_mem _ _ m hm hret]
      simp only [hret, if_true]
      cases hg : rt.storage.getGlobal m.name with
      | none => simp [Option.filter, aget]
      | some v =>
        by_cases hv : v.retainable = true
        · simp [Option.filter, hv]
        · simp [Option.filter, hv, aget]
    · have hret' : retainOnWarm m.retain = false := by simpa using hret
      have hs : snapVal rt.storage rt.globalsMeta m.name = none := by
        unfold snapVal
        split
        · rename_i hany
          rw [List.any_eq_true] at hany
          obtain ⟨x, hx, hxx⟩ := hany
          simp only [Bool.and_eq_true, beq_iff_eq] at hxx
          have : x = m := nodup_map_inj (·.name) _ hnd x m hx hm hxx.1
          subst this
          rw [hret'] at hxx; simp at hxx
        · rfl
      simp [hs, hret', aget]

/-- **Power-cycle clause, counterexample (program-level RETAIN).**  Witness 3: `r` is a
program-level RETAIN variable, `gr` a RETAIN global, both incremented twice.  A warm restart keeps
both (`r = 9`, `gr = 2`); save + new runtime + load restores `gr` but `r` is back at its initial
value 7 — the retain snapshot covers globals only. -/
theorem c09_counterexample_power_cycle :
    W.warm3 = some (some 9, some 2) ∧ W.power3 = some (some 7, some 2) := by decide

/-! ## Warm restart followed by `load_retain_store` (the resource loop's restart step) -/

/-- **Warm restart + load, partial (guard: the medium holds the snapshot of the very state that
is restarted).**  `scheduler.rs` and `TestHarness::restart_with_retain` run `restart(mode)` and
then `load_retain_store()`.  If the medium holds `f`, entry-wise the snapshot of `rt` itself (an
`Ok` save right before, `c09_save_ok_store`), the load after `restart(Warm)` changes no declared
global: the warm clause survives the reload. -/
theorem c09_warm_restart_load_partial (rt rt' : Runtime) (disk : Disk) (f : Snapshot) (hwf : WF rt)
    (h : restart .warm rt = .ok rt') (hstore : rt.retain.isSome)
    (hfile : disk.file = some f) (hnf : (keys f).Nodup)
    (hext : ∀ n, aget f n = aget (retainSnapshot rt) n)
    (m : GlobalMeta) (hm : m ∈ rt.globalsMeta) :
    (loadRetainStore rt' disk).storage.getGlobal m.name = rt'.storage.getGlobal m.name := by
  obtain ⟨_, _, _, _, _, hmeta, _, _, _, _, _, hret, _⟩ := c09_restart_resets .warm rt rt' h
  rw [c09_power_cycle_globals_partial rt rt' disk f hfile hnf hext (by rw [hret]; exact hstore) hmeta
    hwf.globalsNodup m hm]
  by_cases hr : retainOnWarm m.retain = true
  · simp only [hr, if_true]
    cases hg : rt.storage.getGlobal m.name with
    | none => simp [Option.filter]
    | some v =>
      by_cases hv : v.retainable = true
      · simp only [Option.filter, hv, if_true]
        exact (c09_warm_globals_kept rt rt' hwf h m hm hr v hg).symm
      · simp [Option.filter, hv]
  · have hr' : retainOnWarm m.retain = false := by simpa using hr
    simp [hr']

/-- **Warm restart + load, counterexample (stale file).**  Witness 7: RETAIN global `gr`
incremented every cycle; the file was saved after the first cycle (`gr = 1`); three cycles later
`gr = 4`.  `restart(Warm)` alone keeps 4; `restart(Warm)` followed by `load_retain_store` — what
the resource loop does on a restart request, without saving first — rolls `gr` back to 1. -/
theorem c09_counterexample_warm_rollback :
    W.rollback7 = some (some 4, some 4, some 1) := by decide

/-! ## Bindings stay connected -/

/-- **Bindings clause, partial (guard: every I/O, VAR_ACCESS and task-FB reference is rooted in a
global slot).**  After any restart no binding is disconnected, and the references themselves are
untouched. -/
theorem c09_bindings_live_partial (mode : Mode) (rt rt' : Runtime) (h : restart mode rt = .ok rt')
    (hg : ∀ r, r ∈ rt.bindingRefs → r.loc = .global) :
    rt'.bindingRefs = rt.bindingRefs ∧ rt'.deadBindings = 0 := by
  obtain ⟨_, _, _, _, _, _, _, _, ht, hio, hacc, _⟩ := c09_restart_resets mode rt rt' h
  have hb : rt'.bindingRefs = rt.bindingRefs := by simp [Runtime.bindingRefs, ht, hio, hacc]
  refine ⟨hb, ?_⟩
  unfold Runtime.deadBindings
  rw [hb]
  have : rt.bindingRefs.filter (fun r => !refLive rt'.storage r) = [] := by
    rw [List.filter_eq_nil_iff]
    intro r hr
    simp [refLive, hg r hr]
  simp [this]

/-- **Bindings clause, counterexample.**  Witness 0 (`inp AT %IX0.0`, `outp AT %QX0.0`,
`outp := inp`): input 1, cycle, restart (cold or warm), input 0, cycle.  The output image still
shows 1 and both I/O bindings are disconnected from the live program instance; a freshly built
runtime given input 0 shows 0 with no disconnected binding. -/
theorem c09_counterexample_bindings :
    W.run0 .cold = some ([1], 2) ∧ W.run0 .warm = some ([1], 2) ∧ W.fresh0 = some ([0], 0) := by
  decide

/-! ## Cold restart versus a freshly built runtime: the clauses the code violates -/

/-- **Regression witness (task state; fixed in /repo 5436414).**  Witness 1: the SINGLE variable
is initially TRUE.  A fresh runtime seeds `last_single = TRUE`, so the event task never fires; since
the fix a restart seeds it the same way, so cycle + `restart(Cold)` + cycle also leaves `runs = 0`.
(The harness replays this project as case 1; a divergence there is a violation.) -/
theorem c09_witness_last_single_agrees :
    W.run1 = some (some 0) ∧ W.fresh1 = some (some 0) := by decide

/-- **Regression witness (process images; fixed in /repo d6c1b45).**  Witness 2: a `%MW0`-bound
counter: three cycles, `restart(Cold)`, one cycle yields 1, exactly as a fresh runtime (the marker
image is zeroed; before the fix the stale image gave 4). -/
theorem c09_witness_images_agrees :
    W.run2 = some (some 1) ∧ W.fresh2 = some (some 1) := by decide

/-- **Regression witness (a cold restart keeps the image lengths).**  Witness 9: images sized
(2, 2, 0), a field driver presenting `[1, 42]`.  After cycle + `restart(Cold)` the lengths are still
(2, 2, 0), in the next cycle the driver is handed a 2-byte input slice and the outputs follow the
field (`[1, 42]`) — exactly as on the freshly built, equally sized runtime.  (Harness case 9.) -/
theorem c09_witness_image_lengths_kept :
    W.run9 = some ((2, 2, 0), some 2, [1, 42]) ∧ W.fresh9 = W.run9 := by decide

/-- **Cold = fresh, counterexample (VAR_CONFIG values).**  Witness 5: the build applies
`VAR_CONFIG P0.w := 300`; `restart(Cold)` re-initialises `w` to the POU's initial value 0. -/
theorem c09_counterexample_config_init :
    W.fresh5 = some (some 300) ∧ W.cold5 = some (some 0) := by decide

/-- **Warm clause for FB members, counterexample.**  Witness 4, after two cycles every instance
has `kept = 9`, `nr = 2`.  `restart(Warm)`: member `kept` (declared RETAIN in the FB type) of the
program-level RETAIN instance `rfb` is back at 7, while the NON_RETAIN member `nr` of the RETAIN
global instance `gfb` keeps 2. -/
theorem c09_counterexample_fb_member :
    (W.before4.map fun p => (W.num? p.1, W.num? p.2)) = some (some 9, some 2) ∧
    (W.warm4.map fun p => (W.num? p.1, W.num? p.2)) = some (some 7, some 2) := by decide

/-! ## Cold restart = freshly built runtime, under the guards -/

/-- **Cold = fresh, partial.**  Let `fr` be the runtime built from `src` and `rt` ANY runtime of the
same project (same declarations and task table; `WF`: what the compiler guarantees about names;
`hsdecl`: every SINGLE variable is a declared global, which the scheduler requires anyway).
Remaining guard: no VAR_CONFIG values (`hci`).  Then after `restart(Cold)`:

* every declared global, every program variable and every member of every FB instance they hold
  shows — observed by path, instance ids hidden — exactly what it shows in the fresh runtime;
* time, fault latch, cycle counter, frame count and every task's scheduling state (including the
  `last_single` edge detector, whatever the SINGLE variable's initial value) are the fresh ones;
* the %I, %Q and %M images ARE the images of the fresh runtime after it has been sized
  (`resizeIo`, what start-up does) to the lengths `rt` had: same lengths, all zero — so an I/O
  driver is handed slices of the same length as on a fresh start.

This is the state every subsequent cycle reads (`cycle` reads nothing else besides the bindings,
covered by `c09_bindings_live_partial`).  That equal observations yield equal outputs for every
continuation is checked by the twin run of the correspondence, not proved. -/
theorem c09_cold_fresh_partial (src : Source) (fr rt rt' : Runtime)
    (hbuild : build src = some fr) (hci : src.configInits = [])
    (hsame : rt.globalsMeta = fr.globalsMeta ∧ rt.programs = fr.programs ∧ rt.fbs = fr.fbs ∧
      rt.tasks = fr.tasks)
    (hwf : WF rt) (hpl : PlainInits rt.globalsMeta rt.programs)
    (hsdecl : ∀ t n, t ∈ src.tasks → t.single = some n → ∃ m, m ∈ rt.globalsMeta ∧ m.name = n)
    (h : restart .cold rt = .ok rt') :
    (∀ m member, m ∈ rt.globalsMeta →
      rt'.readGlobalPath m.name member = fr.readGlobalPath m.name member) ∧
    (∀ p d member, p ∈ rt.programs → d ∈ p.vars → d.init ≠ .ext →
      rt'.readProgPath p.name d.name member = fr.readProgPath p.name d.name member) ∧
    rt'.time = fr.time ∧ rt'.fault = fr.fault ∧ rt'.cycleCounter = fr.cycleCounter ∧
    rt'.storage.frames = fr.storage.frames ∧ rt'.taskState = fr.taskState ∧
    (let sized := resizeIo fr rt.io.inputs.length rt.io.outputs.length rt.io.memory.length
     rt'.io.inputs = sized.io.inputs ∧ rt'.io.outputs = sized.io.outputs ∧
     rt'.io.memory = sized.io.memory) := by
  obtain ⟨hm, hp, hf, htk⟩ := hsame
  have hnd : (src.globals.map (·.name)).Nodup := by
    have := hwf.globalsNodup
    obtain ⟨_, _, _, _, _, b4, _⟩ := build_spec_meta src fr hbuild
    rw [hm, b4] at this
    simpa [List.map_map, GlobalDecl.toMeta, Function.comp_def] using this
  obtain ⟨f1, f2, b1, b2, b3, b4, b5, b6, b7, b8, b9, b10, b11, b12, b13, b14⟩ :=
    build_spec src fr hbuild hci hnd
  obtain ⟨s1, s2, r1, r2, r3⟩ := restart_decompose .cold rt rt' h
  have hret : retainedOf .cold rt = [] := by simp [retainedOf, Mode.isWarm]
  have hpv : retainedPvOf .cold rt = [] := by simp [retainedPvOf, Mode.isWarm]
  rw [hret] at r1
  simp only [Mode.isWarm] at r1
  rw [hpv] at r3
  simp only [restoreProgVars] at r3
  have hst : rt'.storage = { s2 with frames := 0 } := by rw [r3]
  -- both storages come out of the same two loops
  have cr := cold_paths rt.fbs rt.globalsMeta rt.programs rt.storage s1 s2 r1 r2
    hwf.globalsNodup hwf.progsNodup hwf.varsNodup hwf.disjoint hpl
  have cf := cold_paths rt.fbs rt.globalsMeta rt.programs {} f1 f2
    (by rw [hm, b4, hf, b5]; exact b1) (by rw [hp, b6, hf, b5]; exact b2)
    hwf.globalsNodup hwf.progsNodup hwf.varsNodup hwf.disjoint hpl
  have hframes : fr.storage.frames = 0 := by
    rw [b3]
    have hnd' : ((src.globals.map GlobalDecl.toMeta).map (·.name)).Nodup := by
      simpa [List.map_map, GlobalDecl.toMeta, Function.comp_def] using hnd
    obtain ⟨i1, _, _⟩ := resetGlobals_spec _ _ _ _ _ _ b1 hnd'
    have i2 := (recreatePrograms_spec _ _ _ _ b2 (by rw [← b6, ← hp]; exact hwf.progsNodup)
      (by rw [← b6, ← hp]; exact hwf.varsNodup)).1
    rw [i2.frames, i1.frames]
  refine ⟨?_, ?_, ?_, ?_, ?_, ?_, ?_, ?_⟩
  · intro m member hmm
    rw [readGlobalPath_eq, readGlobalPath_eq, hst, b3, cf.1 m member hmm]
    exact cr.1 m member hmm
  · intro p d member hpp hd hne
    rw [readProgPath_eq, readProgPath_eq, hst, b3, cf.2 p d member hpp hd hne]
    exact cr.2 p d member hpp hd hne
  · rw [r3, b7]
  · rw [r3, b8]
  · rw [r3, b9]
  · rw [hst, hframes]
  · -- task states: same seeding function, and the SINGLE globals show the same value
    rw [r3, b10]
    simp only
    have e1 : rt.tasks.map (fun t => registerTaskState s2 0 t.single) =
        (rt.tasks.map (·.single)).map (registerTaskState s2 0) := by
      simp [List.map_map, Function.comp_def]
    have e2 : src.tasks.map (fun t => registerTaskState f2 0 t.single) =
        (src.tasks.map (·.single)).map (registerTaskState f2 0) := by
      simp [List.map_map, Function.comp_def]
    rw [e1, e2, htk, b14]
    apply List.map_congr_left
    intro sg hsg
    obtain ⟨t, ht, rfl⟩ := List.mem_map.1 hsg
    apply registerTaskState_congr
    intro n hn
    obtain ⟨m, hmm, rfl⟩ := hsdecl t n ht hn
    have a := cr.1 m none hmm
    have b := cf.1 m none hmm
    unfold readGP at a b
    simp only at a b
    rw [a, b]
  · simp only [resizeIo, b11, b12, b13, vecResize_nil]
    rw [r3]
    simp [Mode.isWarm, Io.zeroImages, map_zero_eq_replicate]

/-- **Instances that existed before a restart are never touched by it.**  In particular a
RETAIN/PERSISTENT FB-typed global keeps (by `c09_warm_globals_kept`) its instance handle AND the
whole state of that instance, including members declared NON_RETAIN; and the old program
instances stay in the table unchanged — which is what stale bindings keep reading. -/
theorem c09_old_instances_untouched (mode : Mode) (rt rt' : Runtime) (hwf : WF rt)
    (h : restart mode rt = .ok rt') (id : Nat) (hid : id < rt.storage.nextId) :
    rt'.storage.getInstance id = rt.storage.getInstance id :=
  restart_old_instances mode rt rt' hwf h id hid

/-! ## Non-vacuity of the hypotheses -/

/-- Witness 6 is well-formed, restarts succeed on it, and it has retained and non-retained
globals and program variables with values: the hypotheses of the warm/cold/program-variable
theorems are jointly satisfiable (on a state reached by two real cycles). -/
example :
    WF W.rt6 ∧ (restart .warm W.rt6).toOption.isSome = true ∧ (restart .cold W.rt6).toOption.isSome = true ∧
    (∃ m, m ∈ W.rt6.globalsMeta ∧ retainOnWarm m.retain = true ∧ (W.rt6.storage.getGlobal m.name).isSome = true) ∧
    (∃ m, m ∈ W.rt6.globalsMeta ∧ retainOnWarm m.retain = false ∧ m.name = 10) ∧
    (∃ p d, p ∈ W.rt6.programs ∧ d ∈ p.vars ∧ retainOnWarm d.retain = true ∧
      W.num? (W.rt6.progVar p.name d.name) = some 9) := by
  refine ⟨⟨by decide, by decide, by decide, by decide⟩, by decide, by decide, ?_, ?_, ?_⟩
  · exact ⟨W.rt6.globalsMeta[1]'(by decide), List.getElem_mem _, by decide, by decide⟩
  · exact ⟨W.rt6.globalsMeta[0]'(by decide), List.getElem_mem _, by decide, by decide⟩
  · exact ⟨W.rt6.programs[0]'(by decide), (W.rt6.programs[0]'(by decide)).vars[0]'(by decide),
      List.getElem_mem _, List.getElem_mem _, by decide, by decide⟩

/-- The hypotheses of `c09_cold_fresh_partial` are satisfiable: witness 6 (SINGLE variable
initially TRUE), state after two cycles. -/
example :
    build W.src6 = some W.fr6 ∧ W.src6.configInits = [] ∧
    (W.rt6.globalsMeta = W.fr6.globalsMeta ∧ W.rt6.programs = W.fr6.programs ∧ W.rt6.fbs = W.fr6.fbs ∧
      W.rt6.tasks = W.fr6.tasks) ∧
    WF W.rt6 ∧ PlainInits W.rt6.globalsMeta W.rt6.programs ∧
    (∀ t n, t ∈ W.src6.tasks → t.single = some n → ∃ m, m ∈ W.rt6.globalsMeta ∧ m.name = n) ∧
    (restart .cold W.rt6).toOption.isSome = true ∧
    (∀ r, r ∈ W.rt6.bindingRefs → r.loc = .global) := by
  have hb : build W.src6 = some W.fr6 := by
    unfold W.fr6
    cases h : build W.src6 with
    | none => exact absurd h (by decide)
    | some fr => rfl
  have hs : ∀ t n, t ∈ W.src6.tasks → t.single = some n → ∃ m, m ∈ W.rt6.globalsMeta ∧ m.name = n := by
    intro t n ht hn
    simp only [W.src6, List.mem_singleton] at ht
    subst ht
    simp only [Option.some.injEq] at hn
    subst hn
    exact ⟨W.rt6.globalsMeta[0]'(by decide), List.getElem_mem _, by decide⟩
  exact ⟨hb, rfl, ⟨rfl, rfl, rfl, rfl⟩, ⟨by decide, by decide, by decide, by decide⟩,
    ⟨by decide, by decide⟩, hs, by decide, by decide⟩

/-- The hypotheses of `c09_power_cycle_globals_partial` are satisfiable (witness 3 with a store). -/
example :
    W.rt3s.retain.isSome = true ∧ (W.rt3s.globalsMeta.map (·.name)).Nodup ∧
    (∃ m, m ∈ W.rt3s.globalsMeta ∧ retainOnWarm m.retain = true ∧
      W.num? (W.rt3s.storage.getGlobal m.name) = some 2) :=
  ⟨by decide, by decide, W.rt3s.globalsMeta[0]'(by decide), List.getElem_mem _, by decide, by decide⟩

/-! ## Initialiser expressions of program variables -/

/-- **Initialiser expressions are evaluated over the storage the instance is created in.**
`create_program_instance` gives a program variable declared `v : T := e` (`e` an expression over
globals and typed literals) the value of `e` over the globals of the storage it is CALLED ON,
coerced to `T`.  `Runtime::restart` calls it in its fourth loop (`recreatePrograms`) on the storage
its third loop (`resetGlobals`) produced, and the build calls it after `apply_globals`: the
"declared initial value" a warm or cold restart gives such a variable is `e` over the
RE-INITIALISED globals (retained ones at their kept value), and a cold restart evaluates it over
the same global values as a fresh build.  Proved for one instance creation; that every restart
and every cold-vs-fresh pair agrees on such variables is checked by the correspondence run and the
oracle (`warm-rule`, `cold-vars`, twin), not proved (`c09_cold_fresh_partial` is guarded to
constant initialisers by `PlainInits`). -/
theorem c09_expr_init_reads_creation_storage (fbs : List FbDef) (s s' : Storage) (p : ProgDef)
    (id : Nat) (h : createProgramInstance fbs s p = .ok (s', id))
    (hnd : (p.vars.map (·.name)).Nodup) (d : VarDef) (hd : d ∈ p.vars) (ty : Nat) (e : IExpr)
    (hi : d.init = .expr ty e) (hc : e.closed = true) :
    ∃ k, e.eval s 0 = some k ∧ s'.getInstVar id d.name = some (.num ty k) :=
  createProgramInstance_expr fbs s s' p id h hnd d hd ty e hi hc

/-- Non-vacuity: `limit : INT := setpoint * INT#2` created in a storage where `setpoint = 10`. -/
example :
    (match createProgramInstance [] { globals := [(0, .num 3 10)] }
        { name := 5, vars := [{ name := 1, retain := .unspecified,
                                init := .expr 3 (.mul (.glob 0) (.lit 2)) }], body := [] } with
     | .ok (s', id) => (s'.getInstVar id 1).bind Val.numVal?
     | .error _ => none) = some 20 := by decide

/-! ## Restart requests through the resource thread (`scheduler.rs`) -/

/-- **Histories through the scheduler: no restart request is lost.**  The control endpoint writes
requests into the restart signal; the resource thread takes a request out of the slot and carries
it out (`restart(mode)` + `load_retain_store()`) in ONE critical section.  For every interleaving of
requests, polls and completions, once the thread has caught up nothing is pending, every restart
carried out earlier stays carried out, and the restart carried out LAST is the one requested last
— so the state after the history is the state `restart(last mode)` (+ load) produces, which is
what the warm / cold clauses are about.  A request is only ever superseded by a LATER request that
reached the slot before the thread took the earlier one. -/
theorem c09_sched_no_request_lost (evs : List SigEv) :
    let s := sigQuiesce (sigRun {} evs)
    s.slot = none ∧ s.busy = none ∧ s.blocked = none ∧
    s.done.head? = lastRequest evs none ∧
    ∃ more, s.done = more ++ (sigRun {} evs).done := by
  have w0 : ({} : SigSt).wf := ⟨fun _ => rfl, fun h => by cases h⟩
  obtain ⟨w, n⟩ := sigRun_inv evs {} w0
  obtain ⟨a, b, c, d, e⟩ := sigQuiesce_spec _ w
  refine ⟨a, b, c, ?_, e⟩
  rw [d, n]
  rfl

/-- The scripted tails of the correspondence run: a request that arrives while the previous one is
being carried out (`during`) is carried out after it; of the requests queued before the thread
starts only the last survives (kernel-evaluated instances of the transition system). -/
theorem c09_sched_scripts :
    schedExecuted [(.idle, .warm), (.during, .cold)] = [.warm, .cold] ∧
    schedExecuted [(.pre, .warm), (.pre, .cold), (.during, .warm), (.during, .warm)] = [.cold, .warm, .warm] ∧
    schedExecuted [(.pre, .cold), (.idle, .warm)] = [.cold, .warm] := by decide

end TrustVerif.C09
