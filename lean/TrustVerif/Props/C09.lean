import TrustVerif.Lemmas.C09

namespace TrustVerif.C09

/-- placeholder while the pipeline is brought up -/
theorem c09_placeholder : retainOnWarm .retain = true := rfl

end TrustVerif.C09
