import TrustVerif.Lemmas.C10

namespace TrustVerif.C10
open Gen

/-- The tag table read from `enum ValueTag` has pairwise distinct tags. -/
theorem c10_tags_distinct : allTags.Nodup := by decide

end TrustVerif.C10
