import TrustVerif.Lemmas.C10

/-!
# C10 — retain file: lossless codec and crash-atomic save

Property theorems only.  `Model/C10.lean` mirrors `encode_snapshot`/`encode_value`,
`decode_snapshot`/`decode_value`/`RetainReader` and `FileRetainStore::{store, write_bytes, load}`
of crates/trust-runtime/src/retain.rs; the tag table and the constants are regenerated from the
Rust source on every run (`Generated/C10Tags.lean`).
-/
namespace TrustVerif.C10
open Gen

/-! ## Clause 1: every retainable snapshot is read back unchanged -/

/-- **Round trip.**  For every retainable snapshot (no `Reference`/`Instance`, nesting within
`MAX_RETAIN_DEPTH`, every length below `2^32`; names and strings valid UTF-8 and map keys distinct,
as the Rust types guarantee) the encoder succeeds and the decoder returns exactly the snapshot. -/
theorem c10_roundtrip (s : Snapshot) (h : WfSnapshot s) :
    ∃ bytes, encodeSnapshot s = .ok bytes ∧ decodeSnapshot bytes = .ok s := by
  obtain ⟨bytes, hb⟩ := (encodeSnapshot_ok_iff s).mpr h.2.2.2
  exact ⟨bytes, hb, by simpa using rt_snapshot s bytes [] hb h⟩

/-- The decoder does not look past the image: trailing bytes do not change the result. -/
theorem c10_roundtrip_trailing (s : Snapshot) (h : WfSnapshot s) (bytes trailing : Bytes)
    (he : encodeSnapshot s = .ok bytes) : decodeSnapshot (bytes ++ trailing) = .ok s :=
  rt_snapshot s bytes trailing he h

/-- `store` accepts exactly the snapshots without `Reference`/`Instance` values whose nesting
stays within the limit (so the depth limit added to the decoder never breaks a round trip: what
the decoder would reject, the encoder refuses to write). -/
theorem c10_encode_accepts_iff (s : Snapshot) :
    (∃ bytes, encodeSnapshot s = .ok bytes) ↔ encodableFields 0 s = true :=
  encodeSnapshot_ok_iff s

/-- The tag table read from `enum ValueTag` has pairwise distinct tags. -/
theorem c10_tags_distinct : allTags.Nodup := by decide

/-- **Format stability.**  As long as `RETAIN_VERSION` is 1 the magic and the tag numbers are the
ones of the STRN v1 format, so files written by earlier builds keep their meaning (renumbering a
tag without bumping the version breaks this obligation; the harness then also shows the pinned
golden image being misread). -/
theorem c10_format_v1_pinned : version = 1 →
    magic = [0x53, 0x54, 0x52, 0x4E] ∧
    allTags = [1, 2, 3, 4, 5, 6, 7, 8, 9, 10, 11, 12, 13, 14, 15, 16, 17, 18, 19, 20, 21, 22, 23, 24,
      25, 26, 27, 28, 29, 30, 31] := by decide

/-! ## Clause 3: arbitrary file contents give `Ok` or `Err`, with bounded resources -/

/-- **Totality.**  The decoder is a total function (by construction) and the fuel that makes its
recursion structural is never the reason for an answer: on every byte string it returns a
snapshot or one of the error classes of the code. -/
theorem c10_decode_total (bytes : Bytes) :
    (∃ s, decodeSnapshot bytes = .ok s) ∨
    (∃ e, decodeSnapshot bytes = .error e ∧ e ≠ .fuel) := by
  have h := (inv_decodeSnapshotW bytes).2.2
  unfold decodeSnapshot
  cases hd : (decodeSnapshotW bytes).out with
  | ok p => exact .inl ⟨p.1, rfl⟩
  | error e =>
    refine .inr ⟨e, rfl, ?_⟩
    rintro rfl
    exact h hd

/-- What the decoder returns is a legitimate `IndexMap`: the names of a decoded snapshot are
pairwise distinct (a repeated name in the file overwrites, as `IndexMap::insert` does). -/
theorem c10_decode_keys_distinct (bytes : Bytes) (s : Snapshot)
    (h : decodeSnapshot bytes = .ok s) : s.keysNodup = true := by
  unfold decodeSnapshot at h
  cases hd : (decodeSnapshotW bytes).out with
  | error e => simp [hd] at h
  | ok p =>
    obtain ⟨s', r⟩ := p
    simp only [hd, Except.ok.injEq] at h
    subst h
    unfold decodeSnapshotW at hd
    cases h1 : (readBytes 4 bytes).out with
    | error e => rw [W.bind_out_error h1] at hd; cases hd
    | ok p1 =>
      obtain ⟨m, r1⟩ := p1
      rw [W.bind_out_ok h1] at hd
      split at hd
      · cases hd
      · cases h2 : (readLe 2 r1).out with
        | error e => rw [W.bind_out_error h2] at hd; cases hd
        | ok p2 =>
          obtain ⟨v, r2⟩ := p2
          rw [W.bind_out_ok h2] at hd
          split at hd
          · cases hd
          · cases h3 : (readLe 4 r2).out with
            | error e => rw [W.bind_out_error h3] at hd; cases hd
            | ok p3 =>
              obtain ⟨cnt, r3⟩ := p3
              rw [W.bind_out_ok h3] at hd
              exact decodeFields_keysNodup cnt .nil r3 s' r rfl hd

/-- **Allocation bound.**  Every `Vec::with_capacity` request made while decoding is covered by
the bytes still unread at that moment (16 per dimension pair, one per element), which are part of
the input. -/
theorem c10_decode_alloc (bytes : Bytes) :
    (∀ req remaining, .allocElems req remaining ∈ (decodeSnapshotW bytes).log.toList →
      req ≤ remaining ∧ remaining ≤ bytes.length) ∧
    (∀ req remaining, .allocDims req remaining ∈ (decodeSnapshotW bytes).log.toList →
      16 * req ≤ remaining ∧ remaining ≤ bytes.length) :=
  ⟨fun _ _ h => (inv_decodeSnapshotW bytes).1 _ h, fun _ _ h => (inv_decodeSnapshotW bytes).1 _ h⟩

/-- Hence no single request exceeds the size of the file (in elements, resp. 16-byte pairs). -/
theorem c10_decode_alloc_le_file (bytes : Bytes) (req remaining : Nat) :
    (.allocElems req remaining ∈ (decodeSnapshotW bytes).log.toList → req ≤ bytes.length) ∧
    (.allocDims req remaining ∈ (decodeSnapshotW bytes).log.toList → 16 * req ≤ bytes.length) := by
  constructor
  · intro h; have := (c10_decode_alloc bytes).1 _ _ h; omega
  · intro h; have := (c10_decode_alloc bytes).2 _ _ h; omega

/-- **Recursion bound.**  `decode_value` is never entered with a depth argument above
`MAX_RETAIN_DEPTH + 1`, whatever the input. -/
theorem c10_decode_depth (bytes : Bytes) (depth : Nat)
    (h : .enter depth ∈ (decodeSnapshotW bytes).log.toList) : depth ≤ maxDepth + 1 :=
  (inv_decodeSnapshotW bytes).1 _ h

/-- The limit in the current source: at most 66 nested frames (depth arguments `0..=65`). -/
theorem c10_depth_limit_value : maxDepth + 1 = 65 := by decide

/-! ## Clause 2: a crash during a save leaves the old or the new snapshot -/

/-- **Crash atomicity.**  From any disk state, if the process dies after any prefix of the
system calls of `store(new)` (the `write` possibly cut anywhere) — or completes them — the next
`load` returns what it returned before the save, or `new` in full. -/
theorem c10_crash_atomic (d d' : Disk) (new : Snapshot) (hw : WfSnapshot new)
    (hc : Crash (storeOps new) d d') : load d' = load d ∨ load d' = .ok new := by
  obtain ⟨bytes, hb, hdec⟩ := c10_roundtrip new hw
  unfold storeOps at hc
  rw [hb] at hc
  rcases crash_writeOps_main bytes d d' hc with h | h
  · exact .inl (load_congr h)
  · exact .inr (by simp [load, h, hdec])

/-- In the property's words: with the previously saved snapshot `old` on disk, the next load is
`old` or `new`, never an error, an empty set or a mixture. -/
theorem c10_crash_old_or_new (old new : Snapshot) (oldBytes : Bytes) (tmp : Option Bytes)
    (d' : Disk) (ho : WfSnapshot old) (hob : encodeSnapshot old = .ok oldBytes)
    (hn : WfSnapshot new) (hc : Crash (storeOps new) ⟨some oldBytes, tmp⟩ d') :
    load d' = .ok old ∨ load d' = .ok new := by
  have hold : load ⟨some oldBytes, tmp⟩ = .ok old := by
    simpa [load] using rt_snapshot old oldBytes [] hob ho
  rcases c10_crash_atomic _ d' new hn hc with h | h
  · exact .inl (h.trans hold)
  · exact .inr h

/-- First save (no retain file yet): the next load is the empty snapshot or `new`. -/
theorem c10_crash_first_save (new : Snapshot) (tmp : Option Bytes) (d' : Disk)
    (hn : WfSnapshot new) (hc : Crash (storeOps new) ⟨none, tmp⟩ d') :
    load d' = .ok .nil ∨ load d' = .ok new := by
  rcases c10_crash_atomic _ d' new hn hc with h | h
  · exact .inl (h.trans rfl)
  · exact .inr h

/-- A snapshot the encoder rejects never touches the disk. -/
theorem c10_store_rejected_untouched (d d' : Disk) (new : Snapshot) (e : Err)
    (he : encodeSnapshot new = .error e) (hc : Crash (storeOps new) d d') : d' = d := by
  unfold storeOps at hc
  rw [he] at hc
  exact crash_nil d d' hc

/-- A completed save is what the next load returns. -/
theorem c10_store_then_load (d : Disk) (new : Snapshot) (hw : WfSnapshot new) :
    load (runOps d (storeOps new) (storeOps new).length) = .ok new := by
  obtain ⟨bytes, hb, hdec⟩ := c10_roundtrip new hw
  unfold storeOps
  rw [hb]
  simp [writeOps, runOps, applyOp, Disk.set, Disk.get, load, hdec]

/-! ## RetainManager: which snapshot reaches the file (clause 1 at the level of `save_retain_store`) -/

/-- **Invariant.**  Through any sequence of `save_snapshot` calls with retainable snapshots the
retain file holds exactly the encoded image of the manager's `last_snapshot`. -/
theorem c10_manager_file_is_last_stored (d0 : Disk) (seq : List Snapshot)
    (hw : ∀ s ∈ seq, WfSnapshot s) :
    (seq.foldl (fun (m : Mgr) s => (m.save s).1) ⟨none, d0⟩).Consistent := by
  suffices h : ∀ (m : Mgr), m.Consistent →
      (seq.foldl (fun (m : Mgr) s => (m.save s).1) m).Consistent by
    exact h ⟨none, d0⟩ (by intro l hl; cases hl)
  induction seq with
  | nil => intro m hm; exact hm
  | cons s t ih =>
    intro m hm
    exact ih (fun x hx => hw x (List.mem_cons_of_mem _ hx)) _
      (Mgr.save_consistent m s hm (hw s List.mem_cons_self))

/-- **Clause 1 at the manager.**  A save of a retainable snapshot reports success, and the saved
snapshot — bit for bit, whether or not the write was skipped as "unchanged" — is what the next
load returns. -/
theorem c10_manager_save (m : Mgr) (s : Snapshot) (hc : m.Consistent) (hw : WfSnapshot s) :
    (m.save s).2 = .ok () ∧ load (m.save s).1.disk = .ok s :=
  Mgr.save_result m s hc hw

/-- After any sequence of `save_snapshot` calls with retainable snapshots, starting from a fresh
manager and any directory contents, the next load returns the snapshot saved last. -/
theorem c10_manager_load_is_last_saved (d0 : Disk) (seq : List Snapshot) (s : Snapshot)
    (hw : ∀ x ∈ seq, WfSnapshot x) (hs : WfSnapshot s) :
    load ((seq ++ [s]).foldl (fun (m : Mgr) x => (m.save x).1) ⟨none, d0⟩).disk = .ok s := by
  rw [List.foldl_append]
  exact (c10_manager_save _ s (c10_manager_file_is_last_stored d0 seq hw) hs).2

/-- The write is skipped only when the file already holds the very image `store` would write. -/
theorem c10_manager_skip_only_identical (m : Mgr) (s : Snapshot) (bytes : Bytes) (hc : m.Consistent)
    (hb : encodeSnapshot s = .ok bytes) (h : m.unchanged s = true) : m.disk.main = some bytes := by
  unfold Mgr.unchanged at h
  cases hl : m.last with
  | none => simp [hl] at h
  | some l =>
    obtain ⟨⟨lb, hlb, hmain⟩, _⟩ := hc l hl
    simp only [hl, sameRetainImage, hlb, hb, Except.toOption, Bool.and_eq_true, beq_iff_eq,
      Option.some.injEq] at h
    rw [hmain, h.2]

def exSnapLater : Snapshot := .cons [0x78] (.real 0x3F800000) .nil
def exZero : Snapshot := .cons [0x78] (.real 0) .nil
def exNegZero : Snapshot := .cons [0x78] (.real 0x80000000) .nil

/-- **Regression (repaired finding C10-negzero-not-saved).**  A retained REAL goes from `+0.0` to
`-0.0`: the snapshots are `==` but their images differ, so the second save is written and the
file holds `-0.0`. -/
theorem c10_manager_negzero_saved :
    WfSnapshot exZero ∧ WfSnapshot exNegZero ∧ exZero ≠ exNegZero ∧ snapshotEq exZero exNegZero = true ∧
    ((Mgr.save ⟨none, ⟨none, none⟩⟩ exZero).1.save exNegZero).2 = .ok () ∧
    load ((Mgr.save ⟨none, ⟨none, none⟩⟩ exZero).1.save exNegZero).1.disk = .ok exNegZero := by
  decide

/-- **Counterexample for the pre-repair change detection** (`last_snapshot == Some(&snapshot)`
alone): it finds the two snapshots equal, skips the write and reports success; the file still
holds `+0.0`.  (This is the routine /repo had before the repair of finding C10-negzero-not-saved;
the model distinguishes it from the repaired one.) -/
theorem c10_manager_partialeq_counterexample :
    WfSnapshot exZero ∧ WfSnapshot exNegZero ∧ exZero ≠ exNegZero ∧
    ((Mgr.savePartialEq ⟨none, ⟨none, none⟩⟩ exZero).1.savePartialEq exNegZero).2 = .ok () ∧
    load ((Mgr.savePartialEq ⟨none, ⟨none, none⟩⟩ exZero).1.savePartialEq exNegZero).1.disk = .ok exZero := by
  decide

/-- The hypotheses of the manager theorems are satisfiable, in both branches of the change
detection: a consistent manager that skips (same snapshot again) and one that writes. -/
example : (Mgr.save ⟨none, ⟨none, none⟩⟩ exZero).1.unchanged exZero = true ∧
    (Mgr.save ⟨none, ⟨none, none⟩⟩ exZero).1.unchanged exSnapLater = false ∧
    WfSnapshot exSnapLater := by decide

example : (Mgr.save ⟨none, ⟨none, none⟩⟩ exZero).1.Consistent :=
  c10_manager_file_is_last_stored ⟨none, none⟩ [exZero] (by decide)

/-! ## Regression: the save routine before the repair (commit f87ef0b) was not crash atomic -/

def exOld : Snapshot := .cons [0x61] (.int 1) .nil
def exNew : Snapshot := .cons [0x61] (.int 2) .nil

/-- `File::create(path)` + `write_all` in place: dying right after the `create` leaves an empty
retain file, and the next load is an error — neither the old nor the new snapshot.  (This is the
routine /repo had before `fix: retain file is saved by write-to-temp, sync and rename`; the model
distinguishes it from the repaired one.) -/
theorem c10_crash_inplace_counterexample :
    ∃ oldBytes newBytes d',
      encodeSnapshot exOld = .ok oldBytes ∧ encodeSnapshot exNew = .ok newBytes ∧
      WfSnapshot exOld ∧ WfSnapshot exNew ∧
      Crash (writeOpsInPlace newBytes) ⟨some oldBytes, none⟩ d' ∧
      load d' = .error .truncated := by
  refine ⟨_, _, _, rfl, rfl, by decide, by decide, .step _ _ _ _ (.stop _ _), by decide⟩

/-! ## The temporary file is invisible to `load` -/

/-- **`load` never looks at the temporary file**: whatever a crashed save left in `<path>.tmp`
is invisible to the next load. -/
theorem c10_load_ignores_tmp (d : Disk) (tmp : Option Bytes) :
    load { d with tmp := tmp } = load d := rfl

/-- A tempting variant of `load` ("pick up the snapshot a save interrupted right before the rename
left in the temporary file when there is no retain file yet"); kept only for the counterexample
below. -/
def loadTmpFallback (d : Disk) : Except Err Snapshot :=
  match d.main with
  | some bytes => decodeSnapshot bytes
  | none =>
    match d.tmp with
    | some bytes => decodeSnapshot bytes
    | none => .ok .nil

/-- … and why `c10_load_ignores_tmp` matters: with that fallback the very first save is no longer
crash atomic — dying right after the temp file was created leaves an empty temp file, and the
next load is an error instead of the empty snapshot or the new one.  (`c10_crash_first_save`
holds for the real `load`.) -/
theorem c10_tmp_fallback_counterexample :
    ∃ d', WfSnapshot exNew ∧ Crash (storeOps exNew) ⟨none, none⟩ d' ∧
      loadTmpFallback d' = .error .truncated ∧
      (load d' = .ok .nil ∨ load d' = .ok exNew) := by
  refine ⟨applyOp ⟨none, none⟩ (.createTrunc .tmp), by decide, ?_, by decide, .inl (by decide)⟩
  exact .step _ _ _ _ (.stop _ _)

/-! ## Non-vacuity -/

def exSnap : Snapshot :=
  .cons [0x61] (.array [(1, 3)] (.cons (.int 7) (.cons (.bool true) .nil)))
    (.cons [0xC3, 0xA9] (.struct [0x54] (.cons [0x66] (.lreal 0x7FF8000000000001) (.cons [] (.string []) .nil)))
      (.cons [] (.enum [0x45] [0x56] 0xFFFFFFFFFFFFFFFF) .nil))

/-- The hypotheses of the round-trip and crash theorems are satisfiable by a snapshot with an
array, a struct, an empty name, a non-ASCII name and a NaN payload. -/
example : WfSnapshot exSnap := by decide

/-- A crash state of `store(exSnap)` with a half-written temp file exists. -/
example : ∃ bytes, encodeSnapshot exSnap = .ok bytes ∧
    Crash (storeOps exSnap) ⟨none, some [1, 2, 3]⟩ ⟨none, some (bytes.take 7)⟩ := by
  refine ⟨_, rfl, ?_⟩
  exact .step _ _ _ _ (.partialWrite _ _ 7 _ _)

/-- The decoder's ghost log is not empty: the 23-byte witness of the old allocation defect
(header, one entry, empty name, `Array`, len `0xFFFFFFFF`, dims 0) requests 0 elements now. -/
example :
    (decodeSnapshotW [83, 84, 82, 78, 1, 0, 1, 0, 0, 0, 0, 0, 0, 0, 28, 255, 255, 255, 255, 0, 0, 0, 0]).log.toList =
      [.enter 0, .allocDims 0 0, .allocElems 0 0, .enter 1] := by decide

/-- Snapshots that `store` rejects exist (nothing is written for them). -/
example : encodeSnapshot (.cons [0x62] .reference .nil) = .error .unretainable := by decide

end TrustVerif.C10
