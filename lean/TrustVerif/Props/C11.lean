import TrustVerif.Lemmas.C11Frame

/-!
# C11 — STBC container: total decoder/validator, exact round trip, validated means safe

Property theorems only.  `Model/C11.lean` mirrors `bytecode/{reader,decode,encode,validate,metadata}.rs`
and `runtime/bytecode.rs`; `crc` is an arbitrary function (crc32fast::hash in the code).
-/
namespace TrustVerif.C11

/-- **Round trip, module side (all sections).**  For every well-formed module (`Module.wf`: what
the wire format can represent) `encode` succeeds and `decode` of its bytes is the module itself —
header, section table, layout, padding, and each of the twelve section codecs. -/
theorem c11_decode_encode (crc : Bytes → UInt32) (m : Module) (h : m.wf = true) :
    ∃ b, encode crc m = .ok b ∧ decode crc b = .ok m :=
  decode_encode crc m h

/-- **Round trip, byte side.**  Re-encoding what was decoded from an emitted container reproduces
the container byte for byte: `encode (decode (encode m)) = encode m`. -/
theorem c11_encode_decode_encode (crc : Bytes → UInt32) (m : Module) (h : m.wf = true) :
    ∃ b, encode crc m = .ok b ∧ (decode crc b >>= encode crc) = .ok b := by
  obtain ⟨b, he, hd⟩ := decode_encode crc m h
  exact ⟨b, he, by rw [hd]; exact he⟩

end TrustVerif.C11
