import TrustVerif.Lemmas.C11Frame
import TrustVerif.Lemmas.C11Validate
import TrustVerif.Lemmas.C11Wf
import TrustVerif.Lemmas.C11Apply
import TrustVerif.Generated.C11OpcodeSpec

/-!
# C11 — STBC container: total decoder/validator, exact round trip, validated means safe

Property theorems only.  `Model/C11.lean` mirrors `bytecode/{reader,decode,encode,validate,metadata}.rs`
and `runtime/bytecode.rs` function by function; `crc` is an arbitrary function (crc32fast::hash in
the code); the opcode table comes from `Generated/C11Opcodes.lean` (translated from validate.rs on
every run).  All functions of the model are total Lean functions defined by structural recursion
(no `partial`, no fuel that the code does not have): that the definitions are accepted is the
termination argument of the decoder and of the validator; the only fuel, `validateConstEntryFuel`,
is the code's own `depth` parameter (`MAX_CONST_TYPE_DEPTH`).
-/
namespace TrustVerif.C11
open TrustVerif.C11.Gen

/-! ## exact round trip -/

/-- **"decoding an encoded module reproduces the module"** — all twelve section codecs, header,
section table, layout and padding.  For every well-formed module (`Module.wf`: what the wire format
can represent — lengths fit their `u32` counts, no `Some(u32::MAX)`, kind tags agree with the data,
canonical type offsets, total size below 4 GiB) `encode` succeeds and `decode` of its bytes is the
module itself, for every checksum function. -/
theorem c11_decode_encode (crc : Bytes → UInt32) (m : Module) (h : m.wf = true) :
    ∃ b, encode crc m = .ok b ∧ decode crc b = .ok m :=
  decode_encode crc m h

/-- **"encoding a decoded module reproduces the bytes"** for every emitted container `e = encode m`:
`encode (decode e) = e`. -/
theorem c11_encode_decode_encode (crc : Bytes → UInt32) (m : Module) (h : m.wf = true) :
    ∃ e, encode crc m = .ok e ∧ (decode crc e >>= encode crc) = .ok e := by
  obtain ⟨b, he, hd⟩ := decode_encode crc m h
  exact ⟨b, he, by rw [hd]; exact he⟩

/-- **Round trip from arbitrary bytes** ("encoding a decoded module reproduces the bytes and
decoding an encoded module reproduces the module" for whatever comes out of `decode`).  If a byte
string decodes to `m`, then `m` is well-formed, `encode m` succeeds and decodes to `m` again — for
every input below 4 GiB − 1 MiB (the format's `u32` offsets) and every checksum function.  Since
e5dfde6 no further guard is needed: the decoder enforces the canonical type-table layout. -/
theorem c11_decode_encode_decode (crc : Bytes → UInt32) (bytes : Bytes) (m : Module)
    (h : decode crc bytes = .ok m) (hsz : bytes.length + 1048576 < 4294967296) :
    m.wf = true ∧ ∃ b', encode crc m = .ok b' ∧ decode crc b' = .ok m :=
  ⟨decode_wf crc bytes m h hsz, decode_encode_decode crc bytes m h hsz⟩

/-- **"every container the compiler emits validates"**, byte side: the compiler returns a module
only after `module.validate()` succeeded (`encoder/mod.rs`, checked by the translator scan and by
the `emitted` cases of the differential run); for such a module the container that is written,
read back, validates too. -/
theorem c11_emitted_validates (crc : Bytes → UInt32) (m : Module) (h : m.wf = true)
    (hv : validate m = .ok ()) :
    ∃ e, encode crc m = .ok e ∧ (decode crc e >>= validate) = .ok () := by
  obtain ⟨b, he, hd⟩ := decode_encode crc m h
  exact ⟨b, he, by rw [hd]; exact hv⟩

/-! ## decoding: no slice out of bounds, reservations bounded by the input -/

/-- **"never a panic" in `decode`: every slice it takes is inside the buffer.**
(1) after the header checks the section table `[table_off, table_off + 12·count)` lies inside the
file (`&bytes[section_table_off..]`, `&bytes[section_table_off..table_end]`);
(2) after `validate_section_entries` every section `[offset, offset+length)` does
(`&bytes[start..end]`, no `usize` overflow: both operands are `u32`);
(3) a type entry is decoded from `payload[offset..next]` only when `base ≤ offset ≤ next ≤ len`. -/
theorem c11_decode_slices_in_bounds :
    (∀ (crc : Bytes → UInt32) (bytes : Bytes) (h : Header), checkHeader crc bytes h = .ok () →
      headerSize ≤ h.tableOff.toNat ∧
        h.tableOff.toNat + h.sectionCount.toNat * sectionEntrySize ≤ bytes.length) ∧
    (∀ (fileLen : Nat) (es : List SectionEntry), validateSectionEntries fileLen es = .ok () →
      ∀ e ∈ es, e.offset.toNat + e.length.toNat ≤ fileLen) ∧
    (∀ (payload : Bytes) (base : Nat) (prev : Option UInt32) (offset next : Nat) (e : TypeEntry),
      typeEntryAt payload base prev offset next = .ok e →
      base ≤ offset ∧ offset ≤ next ∧ next ≤ payload.length) :=
  ⟨fun _ _ _ h => checkHeader_bounds h, fun _ _ h => validateSectionEntries_bounds h,
   fun _ _ _ _ _ _ h => typeEntryAt_bounds h⟩

/-- **"memory proportional to the input": every `Vec::with_capacity` of `decode.rs` asks for at most
the bytes that are left** (`bounded_capacity`, 652eef6; that every reservation goes through it is
checked on the source by `scan_capacity_sites`, and the peak is measured by the worker's counting
allocator). -/
theorem c11_reservation_bounded (count remaining : Nat) :
    boundedCapacity count remaining ≤ remaining ∧ boundedCapacity count remaining ≤ count := by
  unfold boundedCapacity; omega

/-- **"using memory proportional to the input": the decoded module is not larger than the
container.**  If `decode` succeeds, the canonical encodings of all decoded sections together are at
most `|bytes|` long — every element of every vector of the module accounts for at least one byte of
input, sections do not overlap — and the section table fits behind the header. -/
theorem c11_decode_size_linear (crc : Bytes → UInt32) (bytes : Bytes) (m : Module)
    (h : decode crc bytes = .ok m) :
    (m.sections.map fun s => (encodeSectionData m.minor s.data).length).sum ≤ bytes.length ∧
      headerSize + m.sections.length * sectionEntrySize ≤ bytes.length :=
  decode_size crc bytes m h

/-! ## validator -/

/-- **"validating terminates … never a stack overflow": the constant walk makes progress.**
A successful `validate_const_payload_entry` consumes at least one payload byte whatever the type
graph (alias cycles, self-referential arrays/structs included), so an array constant with
`count = u32::MAX` ends after at most `|payload|` iterations; the recursion depth is bounded by
`MAX_CONST_TYPE_DEPTH + 1` (the fuel of the definition is the code's `depth` parameter, cb0b459). -/
theorem c11_const_walk_progress (nStrings : Nat) (types : List TypeEntry) (fuel : Nat) (e : TypeEntry)
    (s s' : Bytes) (h : validateConstEntryFuel nStrings types fuel e s = .ok ((), s')) :
    s'.length < s.length :=
  validateConstEntryFuel_progress nStrings types fuel e s s' h

/-- A type nested deeper than `MAX_CONST_TYPE_DEPTH` is rejected, not followed. -/
theorem c11_const_walk_depth (nStrings : Nat) (types : List TypeEntry) (e : TypeEntry) (s : Bytes) :
    validateConstEntryFuel nStrings types 0 e s = .error (.invalidSection .constTypeTooDeep) := rfl

/-- **Jump targets** (7b23796).  If a POU body validates, every jump the validator recorded is a
jump instruction of the body, and its target `pc + 5 + offset` — computed in ℤ: the `i32`
arithmetic of the code did not wrap — lies in `[0, len]` and is either `len` or the first byte of
an instruction.  (`code.len() < 2^31`: the code casts positions to `i32`.) -/
theorem c11_jump_targets (index : List PouEntry) (types : List TypeEntry) (code : Bytes)
    (hlen : code.length < 2147483648) (h : validateInstructionStream index types code = .ok ()) :
    ∃ w, walkInstructions index types code.length 0 code {} = .ok w ∧
      (∀ s ∈ w.starts, s < code.length) ∧
      ∀ j ∈ w.jumps, j.1 ∈ w.starts ∧ JumpAt code j.1 j.2 ∧
        0 ≤ (j.1 : Int) + 5 + toI32 j.2 ∧ (j.1 : Int) + 5 + toI32 j.2 ≤ code.length ∧
        ((j.1 : Int) + 5 + toI32 j.2 = code.length ∨
          ∃ s ∈ w.starts, (s : Int) = (j.1 : Int) + 5 + toI32 j.2) := by
  obtain ⟨w, hw, hinv, hj⟩ := validateInstructionStream_jumps index types code hlen h
  exact ⟨w, hw, hinv.starts, fun j hjm =>
    ⟨(hinv.jumps j hjm).1, (hinv.jumps j hjm).2, hj j hjm⟩⟩

set_option maxRecDepth 16384 in
/-- **The validator's opcode table is the specification's.**  For each of the 256 opcode bytes, what
`validate_instruction_stream` does with the operands (table translated from its `match opcode`
arms on every run) is what the normative list of `docs/specs/10-runtime.md` §7.3 (translated on
every run as well) prescribes: same opcodes accepted, same operand widths, same operand checks;
everything else is `InvalidOpcode`. -/
theorem c11_opcode_table_matches_spec :
    (List.range 256).all (fun op =>
      decide ((opTable.lookup op).getD .invalid = (GenSpec.specTable.lookup op).getD .invalid)) = true := by
  decide

/-- The extreme offset that used to overflow (`pc = 1`, `offset = i32::MAX`) is rejected. -/
theorem c11_jump_overflow_rejected :
    checkJump 54 [0, 1] 1 0x7FFFFFFF = .error (.invalidJumpTarget 2147483647) := by rfl

/-! ## validated ⇒ safe to apply -/

/-- **"any container that validates can be applied … without panicking": metadata.**  After
`validate` succeeded, `metadata()` finds every section it needs and every string / reference index
it looks up is in range; the process image sizes it reports are at most `MAX_PROCESS_IMAGE_BYTES`
(ffd16eb).  The only failure left is the *error* `InvalidSection("invalid IO area")` of
`to_value_ref` (an FB task reference into an I/O area > 2, which `validate` does not inspect). -/
theorem c11_validated_safe (m : Module) (h : validate m = .ok ()) :
    (∃ md, metadata m = .ok md ∧ ∀ r ∈ md.resources, r.Bounded) ∨
      metadata m = .error (.invalidSection .invalidIoArea) :=
  validate_metadata m h

/-- **Apply allocates a bounded process image.**  Whatever the bytes, the runtime and the resource
name: if `apply_bytecode_bytes` gets as far as `io.resize(inputs, outputs, memory)`, each of the
three sizes is at most `MAX_PROCESS_IMAGE_BYTES = 2^24` — never the 4 GiB a `u32` can announce. -/
theorem c11_apply_alloc_bounded (crc : Bytes → UInt32) (rt : RtView) (bytes : Bytes)
    (name : Option Bytes) (a b c : Nat)
    (h : (applyBytes crc rt bytes name).2.resize = some (a, b, c)) :
    a ≤ maxProcessImageBytes ∧ b ≤ maxProcessImageBytes ∧ c ≤ maxProcessImageBytes :=
  applyBytes_resize crc rt bytes name a b c h

/-- `apply_bytecode_bytes` touches the runtime only after decode, validate and metadata succeeded. -/
theorem c11_apply_only_validated (crc : Bytes → UInt32) (rt : RtView) (bytes : Bytes)
    (name : Option Bytes) (h : (applyBytes crc rt bytes name).2.resize ≠ none) :
    ∃ m md, decode crc bytes = .ok m ∧ validate m = .ok () ∧ metadata m = .ok md := by
  unfold applyBytes at h
  cases hd : decode crc bytes with
  | error e => simp [hd] at h
  | ok m =>
    simp only [hd, applyModule] at h
    cases hv : validate m with
    | error e => simp [hv] at h
    | ok u =>
      cases hm : metadata m with
      | error e => simp [hv, hm] at h
      | ok md => exact ⟨m, md, rfl, hv, hm⟩

/-! ## validated ⇒ safe to apply: the FB references of the tasks -/

/-- **`array_offset_i64` neither overflows nor leaves the element vector.**  For every array value a
runtime can hold (`ArrWf`: every dimension non-empty, `∏ (upper − lower + 1)` elements, at most
`isize::MAX` of them) and EVERY list of `i64` indices — the container's `Index` segments are not
bounded by `validate` — none of the `i64` / `i128` operations of the code overflows (the model
answers `panic` when one would), and a returned offset is smaller than the number of elements. -/
theorem c11_array_offset_in_bounds (dims : List (Int × Int)) (indices : List Int) (n : Nat)
    (h : ArrWf dims n) :
    arrayOffset dims indices ≠ .panic ∧ ∀ off, arrayOffset dims indices = .some off → off < n :=
  arrayOffset_safe dims indices n h

/-- **"any container that validates can be applied … without panicking": the task FB references.**
Whatever the bytes and the resource name: applying them to a runtime whose array values are
well-formed never overflows while `validate_task` follows the `Index` / `Field` paths of the tasks'
FB references (`read_by_ref` → `read_by_ref_path` → `array_offset_i64`); the outcome is `Ok` or one
of the error values.  (The model computes in ℤ and reports every operation whose result leaves the
type the code computes it in.) -/
theorem c11_apply_refs_no_overflow (crc : Bytes → UInt32) (rt : RtView) (hrt : rt.Wf) (bytes : Bytes)
    (name : Option Bytes) : (applyBytes crc rt bytes name).1 ≠ some .panic :=
  applyBytes_safe crc rt hrt bytes name

/-- **The range test has to come before the subtraction.**  `i64::MIN` is a legal index value for
`ARRAY[1..3]` and `i64::MAX` for `ARRAY[-2..2]` (both answered `None`), but `index − lower` is not an
`i64` for them: computing the relative index first overflows. -/
theorem c11_array_offset_guard_needed :
    ArrWf [(1, 3)] 3 ∧ arrayOffset [(1, 3)] [i64Min] = .none ∧ inI64 i64Min = true ∧
      inI64 (i64Min - 1) = false ∧
    ArrWf [(-2, 2)] 5 ∧ arrayOffset [(-2, 2)] [i64Max] = .none ∧ inI64 i64Max = true ∧
      inI64 (i64Max - (-2)) = false := by
  refine ⟨⟨?_, by rfl, by decide⟩, by rfl, by rfl, by rfl, ⟨?_, by rfl, by decide⟩, by rfl, by rfl, by rfl⟩ <;>
    (intro d hd; simp only [List.mem_singleton] at hd; subst hd; decide)

example : RtView.Wf { programs := [], globals := [.arr [(1, 3)] [.other, .other, .inst 0]], instances := [] } :=
  ⟨fun v hv => by
      simp only [List.mem_singleton] at hv
      subst hv
      exact .arr _ _ ⟨by intro d hd; simp only [List.mem_singleton] at hd; subst hd; decide, by rfl, by decide⟩
        (by intro e he; simp only [List.mem_cons, List.not_mem_nil, or_false] at he
            rcases he with rfl | rfl | rfl <;> constructor),
   fun i hi => by simp at hi⟩
example : arrayOffset [(1, 2), (-1, 1)] [2, 0] = .some 4 := by rfl

/-! ## the encoder's rollback (abstract emitter) -/

/-- **Rollback invariant of the bytecode encoder** (codegen.rs: a statement that cannot be encoded is
replaced by a NOP).  Whatever was pushed and appended since the snapshot — code and, through nested
statements, debug entries — truncating BOTH to the snapshot's lengths restores the snapshot exactly;
and the emitter invariant "every debug entry points into the code, entries are in emission order"
holds initially and is preserved by pushing a debug entry, by appending code, and therefore by a
rollback.  This is what keeps "every container the compiler emits validates" true for programs
with statements the encoder cannot express. -/
theorem c11_emitter_rollback (e s : Emitter) (h : e.Extends s) (hs : s.Inv) :
    e.rollback s.code.length s.debug.length = s ∧ (e.rollback s.code.length s.debug.length).Inv ∧
    ({} : Emitter).Inv ∧ (∀ x : Emitter, x.Inv → x.pushDebug.Inv ∧ ∀ bs, (x.emitBytes bs).Inv) := by
  have hr := Emitter.rollback_restores e s h
  exact ⟨hr, by rw [hr]; exact hs, Emitter.inv_empty,
    fun x hx => ⟨Emitter.inv_pushDebug hx, fun bs => Emitter.inv_emitBytes bs hx⟩⟩

/-- **Truncating only the code breaks the invariant** (the shape of a REPEAT whose UNTIL cannot be
emitted after its two-statement body was): the surviving debug entries point behind the code. -/
theorem c11_emitter_rollback_counterexample :
    let s : Emitter := { code := [0x10], debug := [0] }
    let e := (((s.pushDebug.emitBytes [0x20, 0, 0, 0, 0]).pushDebug).emitBytes [0x21, 0, 0, 0, 0])
    s.Inv ∧ e.Extends s ∧ e.Inv ∧ ¬ (e.rollbackCodeOnly s.code.length).Inv := by
  refine ⟨?_, ?_, ?_, ?_⟩
  · exact ⟨by decide, by decide⟩
  · exact ⟨⟨[0x20, 0, 0, 0, 0, 0x21, 0, 0, 0, 0], by rfl⟩, ⟨[1, 6], by rfl⟩⟩
  · exact ⟨by decide, by decide⟩
  · intro h
    have := h.1 6 (by decide)
    revert this
    decide

example : ∃ e s : Emitter, e.Extends s ∧ s.Inv := ⟨{}, {}, Emitter.extends_refl _, Emitter.inv_empty⟩

/-! ## non-vacuity: the hypotheses of the theorems above are satisfiable -/

example : (exModule 0).wf = true := by rfl
example : validate (exModule 0) = .ok () := by rfl
example : ∃ md, metadata (exModule 0) = .ok md := ⟨_, rfl⟩
example : validate (exModule 3) = .ok () := by rfl
example : metadata (exModule 3) = .error (.invalidSection .invalidIoArea) := by rfl
example : validateInstructionStream [] [] [0x02, 0, 0, 0, 0] = .ok () := by rfl
example : validateConstEntryFuel 0 [] 65 ⟨.primitive, none, .primitive 1 0⟩ [7] = .ok ((), []) := by rfl

example : ∃ b, encode crc0 (exModule 0) = .ok b ∧ decode crc0 b = .ok (exModule 0) :=
  c11_decode_encode crc0 _ (by rfl)
set_option maxRecDepth 8192 in
example : ∃ bytes m, decode crc0 bytes = .ok m ∧ bytes.length + 1048576 < 4294967296 := by
  obtain ⟨b, he, hd⟩ := c11_decode_encode crc0 (exModule 0) (by rfl)
  refine ⟨b, _, hd, ?_⟩
  have hl : (encode crc0 (exModule 0)).map List.length = .ok 320 := by rfl
  rw [he] at hl
  simp only [Except.map, Except.ok.injEq] at hl
  omega
example : boundedCapacity 0xFFFFFFFF 100 = 100 := by rfl

/-- **The former witness is rejected** (e5dfde6).  A type table with four stray bytes between the
offset table and its only entry used to decode to a module that `decode ∘ encode` did not reproduce
(its `offsets` were `[12]`, `encode` writes `[8]`); now the decoder answers
`InvalidSection("type table offset out of bounds")`.  A hand-built module with non-canonical offsets
is still outside `Module.wf` (`TypeTable.offsets` is redundant data), which is why
`c11_decode_encode` has that hypothesis; nothing the decoder or the compiler produces is. -/
theorem c11_noncanonical_offsets_rejected :
    decTypeTable 1 gapPayload = .error (.invalidSection .typeOffsetOutOfBounds) ∧
    (gapTable 12).wf 1 = false ∧ (gapTable 8).wf 1 = true ∧
    decTypeTable 1 (encTypeTable 1 (gapTable 12)) = .ok (gapTable 8) :=
  ⟨by rfl, by rfl, by rfl, by rfl⟩

end TrustVerif.C11
