import TrustVerif.Lemmas.C12

/-!
# C12 — parsing is total and lossless for every input text

Property theorems only.  `Model/C12.lean` mirrors the lexer post-pass of `lexer/mod.rs`, the
Marker / Event operations of `parser/parser.rs`, `Source` of `parser/source.rs`, `Sink::finish` of
`parser/sink.rs` and rowan's `GreenNodeBuilder`.

What is proved here and what is not.  The lexer post-pass, the parser *infrastructure* and the sink
are proved total and lossless for every input.  The grammar functions (`grammar/*.rs`) are not
modelled: they appear as an arbitrary sequence `body` of parser operations, constrained only by the
discipline `Disciplined` (what Rust's ownership of `Marker` and its `DropBomb` enforce, plus the
pairing of `start_node`/`finish_node`, which nothing enforces).  That the real grammar produces such
a sequence, terminates and stops at the end of input is monitored on every generated input by the
correspondence run (the premises `eventsBalanced`, `fpOk`, `consumesAll`, `kindsAgree`, `noEof`,
`tiles`, `onBoundaries` are evaluated on the real token and event streams; operations reconstructed
from the real stream are checked against `Disciplined` and re-run by the model parser, which must
reproduce the real events and error ranges), not proved.  Purity is tested on the implementation
only.  Of the trivia-insertion clause the lexer's part is proved (`c12_lex_trivia_barrier`,
`c12_lex_trivia_insertion`, `c12_lex_trivia_insertion_kinds`: the parser sees the same significant
token kinds after an insertion at a token boundary); that the grammar functions then build the same
tree is tested on the implementation only.
-/
namespace TrustVerif.C12

/-- The iterator `Lexer::next` with its pending queue (`lexNext`, drained by `lexAll`) computes the
list function `postpass` about which the lexer theorems below are stated. -/
theorem c12_lexer_iterator (L : Lang) (src : List Nat) (raw : List Tok) :
    lexAll L src raw = postpass L src raw :=
  lexAll_eq L src raw

/-- **Token ranges are contiguous and non-overlapping (lexer post-pass).**  If the raw logos spans
tile `[a, b)` (contiguous, no empty span), so do the final token ranges after the split of
`IntLiteral`s that end in `.` — for every raw stream, every text and every kind numbering. -/
theorem c12_lex_tiles (L : Lang) (src : List Nat) (raw : List Tok) (a b : Nat)
    (h : tiles raw a b = true) : tiles (postpass L src raw) a b = true :=
  tiles_postpass L src raw a b h

/-- The split position `hi - 1` is a character boundary (the byte there is `.`), so the post-pass
never creates a token range that `&source[lo..hi]` cannot slice (no panic in `Sink::token`). -/
theorem c12_lex_boundaries (L : Lang) (src : List Nat) (raw : List Tok)
    (h : onBoundaries src raw = true) : onBoundaries src (postpass L src raw) = true :=
  onBoundaries_postpass L src raw h

/-- **Trivia-insertion clause, lexer level (1): a trivia token is a barrier.**  The post-pass of
`Lexer::next` keeps no state across a raw token that is neither an `IntLiteral` nor a `Dot` (every
whitespace, comment and pragma token): the raw streams on both sides are processed independently and
the token itself is handed on unchanged.  In particular the kind of the token behind a piece of
trivia never depends on what stands in front of it (and the kind of a token never depends on
whether trivia follows) - the lexer's contribution to "same tree shape after insertion".  A lexer
that re-classifies a word by a flag which trivia tokens update breaks the correspondence of this
model with `lex` (operation `lex` of the differential run). -/
theorem c12_lex_trivia_barrier (L : Lang) (src : List Nat) (a b : List Tok) (tr : Tok)
    (hk1 : tr.kind ≠ L.int) (hk2 : tr.kind ≠ L.dot) :
    postpass L src (a ++ tr :: b) = postpass L src a ++ tr :: postpass L src b :=
  postpass_barrier L src tr b hk1 hk2 a

/-- **Trivia-insertion clause, lexer level (2): insertion into the text.**  Let the text be `p ++ q`,
let the raw stream be `a ++ b` with the tokens of `a` inside `p` and those of `b` inside `q`, and
let a piece of trivia `w` be inserted between them, so that the raw stream of `p ++ w ++ q` is `a`,
the trivia token, and `b` moved by `|w|` bytes (that logos answers so is the monitored premise
"the texts of the significant tokens are untouched").  Then the final token list of the new text is
the final list of `a`, the trivia token, and the final list of `b` moved by `|w|` bytes - for every
text, every piece and every raw stream (the `IntLiteral`-dot split looks at the bytes of the text:
they are the same bytes at the moved positions). -/
theorem c12_lex_trivia_insertion (L : Lang) (p w q : List Nat) (a b : List Tok) (tr : Tok)
    (ha : ∀ t ∈ a, t.hi ≤ p.length) (hb : ∀ t ∈ b, p.length ≤ t.lo)
    (hk1 : tr.kind ≠ L.int) (hk2 : tr.kind ≠ L.dot) :
    postpass L (p ++ w ++ q) (a ++ tr :: b.map (shiftTok w.length)) =
      postpass L (p ++ q) a ++ tr :: (postpass L (p ++ q) b).map (shiftTok w.length) :=
  postpass_insert L p w q a b tr ha hb hk1 hk2

/-- **Trivia-insertion clause, lexer level (3): the parser sees the same tokens.**  If moreover the
insertion point is a boundary between two FINAL tokens (`hsplit`: the post-pass does not join the
last token of `a` with the first of `b`, as it does for `1.` + `.`), the kinds of the significant
tokens - everything the grammar functions look at - are the same before and after the insertion.
What the grammar then does with equal token kinds is not modelled: that part of the clause is
tested on the implementation (random insertions, sweep, kwpos family). -/
theorem c12_lex_trivia_insertion_kinds (L : Lang) (p w q : List Nat) (a b : List Tok) (tr : Tok)
    (ha : ∀ t ∈ a, t.hi ≤ p.length) (hb : ∀ t ∈ b, p.length ≤ t.lo)
    (hk1 : tr.kind ≠ L.int) (hk2 : tr.kind ≠ L.dot) (htr : L.isTrivia tr.kind = true)
    (hsplit : postpass L (p ++ q) (a ++ b) = postpass L (p ++ q) a ++ postpass L (p ++ q) b) :
    sigKinds L (postpass L (p ++ w ++ q) (a ++ tr :: b.map (shiftTok w.length))) =
      sigKinds L (postpass L (p ++ q) (a ++ b)) :=
  sigKinds_insert L p w q a b tr ha hb hk1 hk2 htr hsplit

/-- Non-vacuity: `1..2` (raw logos stream `1.` `.` `2`, final tokens `1` `..` `2`) with a space
inserted between `..` and `2`: all hypotheses hold and the parser sees Int, DotDot, Int. -/
example :
    (∀ t ∈ [(⟨10, 0, 2⟩ : Tok), ⟨11, 2, 3⟩], t.hi ≤ [49, 46, 46].length) ∧
    (∀ t ∈ [(⟨10, 3, 4⟩ : Tok)], [49, 46, 46].length ≤ t.lo) ∧
    postpass exL ([49, 46, 46] ++ [50]) ([⟨10, 0, 2⟩, ⟨11, 2, 3⟩] ++ [⟨10, 3, 4⟩]) =
      postpass exL ([49, 46, 46] ++ [50]) [⟨10, 0, 2⟩, ⟨11, 2, 3⟩] ++ postpass exL ([49, 46, 46] ++ [50]) [⟨10, 3, 4⟩] ∧
    sigKinds exL (postpass exL ([49, 46, 46] ++ [32] ++ [50])
      ([⟨10, 0, 2⟩, ⟨11, 2, 3⟩] ++ ⟨0, 3, 4⟩ :: [⟨10, 3, 4⟩].map (shiftTok 1))) = [10, 12, 10] := by
  decide

/-- Sharpness of `hsplit`: between the raw tokens `1.` and `.` of `1..2` there is no boundary of the
final token list (the post-pass joins them into `1` `..`), so that position is not one the clause
talks about. -/
example : postpass exL [49, 46, 46, 50] ([⟨10, 0, 2⟩] ++ [⟨11, 2, 3⟩, ⟨10, 3, 4⟩]) ≠
    postpass exL [49, 46, 46, 50] [⟨10, 0, 2⟩] ++ postpass exL [49, 46, 46, 50] [⟨11, 2, 3⟩, ⟨10, 3, 4⟩] := by
  decide

/-- **The concatenated token texts equal the input byte for byte**: the texts of a tiling of
`[0, |src|)` concatenate to `src`. -/
theorem c12_tokens_concat (src : List Nat) (toks : List Tok) (h : tiles toks 0 src.length = true) :
    (toks.map fun t => slice src t.lo t.hi).flatten = src := by
  rw [concat_tiles src toks 0 src.length h, slice_full]

/-- **Sink: total and lossless on every event stream that meets the monitored premises.**  For
every token list that tiles the text on character boundaries and every event list that (E1) is one
bracket when forward parents are ignored, (E2) has positive forward parents pointing at
`Start`/`Placeholder` events inside the list and (E3) carries enough `Token` events to move the
cursor past every token, `Sink::finish` neither panics nor diverges, rowan's builder returns a
node, and the text of that node is the input.  Forward-parent chains of any length and shape are
covered (hoisting a `Start` only moves it earlier, which keeps every prefix balanced). -/
theorem c12_sink_lossless_events (L : Lang) (src : List Nat) (toks : List Tok) (events : List Event)
    (hT : tiles toks 0 src.length = true) (hB : onBoundaries src toks = true)
    (h1 : eventsBalanced events = true) (h2 : fpOk events = true)
    (h3 : consumesAll L toks events = true) :
    ∃ k cs, sink L src toks events = .ok (Tree.node k cs) ∧ (Tree.node k cs).text = src := by
  simp [eventsBalanced] at h1
  simp [consumesAll] at h3
  exact sink_lossless_core L src toks events hT hB h1.1 h1.2 (fpOk_sound _ h2) h3

/-- **Sink, token level.**  If in addition (E4) every `Token` event carries the syntax kind of the
token it makes the sink consume, the leaves of the tree are exactly the lexer's tokens, in order,
with the lexer's kinds and texts — nothing dropped, duplicated, reordered or re-labelled. -/
theorem c12_sink_tokens_events (L : Lang) (src : List Nat) (toks : List Tok) (events : List Event)
    (hT : tiles toks 0 src.length = true) (hB : onBoundaries src toks = true)
    (h1 : eventsBalanced events = true) (h2 : fpOk events = true)
    (h3 : consumesAll L toks events = true) (h4 : kindsAgree L toks events = true) :
    ∃ k cs, sink L src toks events = .ok (Tree.node k cs) ∧
      (Tree.node k cs).leaves = lexLeaves L src toks := by
  simp [eventsBalanced] at h1
  simp [consumesAll] at h3
  obtain ⟨k, cs, r1, _, r3⟩ := sink_leaves_core L src toks events hT hB h1.1 h1.2 (fpOk_sound _ h2) h3 h4
  exact ⟨k, cs, r1, r3⟩

/-- **Marker discipline ⇒ premises.**  Whatever the grammar does — any sequence of `start`,
`complete`, `precede`, `bump`, `start_node`, `finish_node`, `error` in which every `Marker` is
completed exactly once, `precede` is applied to completed markers only, and inner
`start_node`/`finish_node` calls are paired — `Parser::parse` runs without panic (no index out of
bounds and no endless loop in `set_forward_parent`), and its event stream satisfies E1, E2 and E4
(`bump` labels its `Token` event with the kind of the token the sink will consume: the two cursors
stay in step); if the lexer emitted no `Eof`-kind token and the parser stopped at the end of input
(`at_end()`, the exit condition of the loop in `Parser::parse`), also E3. -/
theorem c12_parser_events_ok (L : Lang) (toks : List Tok) (root : Nat) (body : List POp)
    (hD : Disciplined body) :
    ∃ s, run L (PState.init toks) (parseOps root body) = .ok s ∧
      eventsBalanced s.events = true ∧ fpOk s.events = true ∧ kindsAgree L toks s.events = true ∧
      (noEof L toks = true → atEnd L s = true → consumesAll L toks s.events = true) := by
  obtain ⟨s, h1, h2, h3, h4, _, h6⟩ := parser_events_ok_core L toks root body hD
  exact ⟨s, h1, h2, h3, h6, h4⟩

/-- **Parser infrastructure + sink: the text of the syntax tree equals the input byte for byte.**
For every text, every tiling token list on character boundaries without `Eof` tokens and every
disciplined sequence of parser operations that ends at the end of input, `parse` (events, then
`Sink::finish`, then rowan's `finish`) terminates without panic, `text(tree) = source`, and the
leaves of the tree are exactly the lexer's tokens (kind and text), in order. -/
theorem c12_sink_lossless (L : Lang) (src : List Nat) (toks : List Tok) (root : Nat) (body : List POp)
    (hT : tiles toks 0 src.length = true) (hB : onBoundaries src toks = true)
    (hE : noEof L toks = true) (hD : Disciplined body) :
    ∃ s, run L (PState.init toks) (parseOps root body) = .ok s ∧
      (atEnd L s = true →
        ∃ k cs, sink L src toks s.events = .ok (Tree.node k cs) ∧ (Tree.node k cs).text = src ∧
          (Tree.node k cs).leaves = lexLeaves L src toks) := by
  obtain ⟨s, h1, h2, h3, h4, h5⟩ := c12_parser_events_ok L toks root body hD
  refine ⟨s, h1, fun hat => ?_⟩
  simp [eventsBalanced] at h2
  have h6 := h5 hE hat
  simp [consumesAll] at h6
  exact sink_leaves_core L src toks s.events hT hB h2.1 h2.2 (fpOk_sound _ h3) h6 h4

/-- **Every reported error range lies inside the text.**  `Parser::error` records the range of the
next significant token or the empty range at 0; in every disciplined run each recorded range
`(lo, hi)` satisfies `lo ≤ hi ≤ |src|` (and is `0..0` or the range of a non-trivia token). -/
theorem c12_errors_in_bounds (L : Lang) (src : List Nat) (toks : List Tok) (root : Nat) (body : List POp)
    (hT : tiles toks 0 src.length = true) (hD : Disciplined body) :
    ∃ s, run L (PState.init toks) (parseOps root body) = .ok s ∧
      ∀ e ∈ s.errors, e.1 ≤ e.2 ∧ e.2 ≤ src.length ∧
        (e = (0, 0) ∨ ∃ t ∈ toks, L.isTrivia t.kind = false ∧ e = (t.lo, t.hi)) := by
  obtain ⟨s, h1, _, _, _, h5, _⟩ := parser_events_ok_core L toks root body hD
  refine ⟨s, h1, ?_⟩
  intro e he
  rcases h5 e he with h | ⟨t, ht, htr, h⟩
  · subst h; exact ⟨Nat.le_refl _, Nat.zero_le _, Or.inl rfl⟩
  · have := tiles_mem_bounds toks 0 src.length t hT ht
    subst h
    exact ⟨by simp; omega, by simp; omega, Or.inr ⟨t, ht, htr, rfl⟩⟩

/-! ## Non-vacuity and sharpness (concrete instances, evaluated by the kernel) -/

/-! `exL` (Model): kinds 0 = whitespace (trivia), 1 = ident, 2 = `+`, 10 = IntLiteral, 11 = Dot,
12 = DotDot, 99 = Eof. -/

/-- `1..2`: logos reports `1.` (IntLiteral), `.`, `2`; the post-pass yields `1`, `..`, `2`, a tiling
on boundaries (hypotheses and conclusions of `c12_lex_tiles` / `c12_lex_boundaries` /
`c12_tokens_concat` hold on a case where the split fires). -/
example :
    let src := [49, 46, 46, 50]
    let raw : List Tok := [⟨10, 0, 2⟩, ⟨11, 2, 3⟩, ⟨10, 3, 4⟩]
    tiles raw 0 src.length = true ∧ onBoundaries src raw = true ∧
      postpass exL src raw = [⟨10, 0, 1⟩, ⟨12, 1, 3⟩, ⟨10, 3, 4⟩] ∧
      lexAll exL src raw = [⟨10, 0, 1⟩, ⟨12, 1, 3⟩, ⟨10, 3, 4⟩] ∧
      tiles (postpass exL src raw) 0 src.length = true := by
  decide

/-- `a + b` with surrounding blanks, parsed the way `parse_expr_bp` does it: `start`, `bump`,
`complete` (NameRef), `precede` (forward parent), `bump`, nested NameRef, `complete` (BinaryExpr).
The run is disciplined, ends at the end of input, its event stream contains a forward parent and
meets E1–E4, and the sink rebuilds the text: all hypotheses of `c12_parser_events_ok`,
`c12_sink_lossless_events`, `c12_sink_tokens_events`, `c12_sink_lossless` and `c12_errors_in_bounds`
are satisfiable together. -/
example :
    let src := [32, 97, 32, 43, 32, 98, 32]
    let toks : List Tok := [⟨0, 0, 1⟩, ⟨1, 1, 2⟩, ⟨0, 2, 3⟩, ⟨2, 3, 4⟩, ⟨0, 4, 5⟩, ⟨1, 5, 6⟩, ⟨0, 6, 7⟩]
    let body : List POp :=
      [.start, .bump, .complete 1 50, .precede 1, .bump, .start, .bump, .error, .complete 6 50, .complete 4 51]
    let events : List Event :=
      [.start 40 none, .start 50 (some 3), .token 1 1, .finish, .start 51 none, .token 2 1,
        .start 50 none, .token 1 1, .finish, .finish, .finish]
    tiles toks 0 src.length = true ∧ onBoundaries src toks = true ∧ noEof exL toks = true ∧
      Disciplined body ∧
      run exL (PState.init toks) (parseOps 40 body) = .ok ⟨events, [⟨0, 6, 7⟩], [(0, 0)]⟩ ∧
      atEnd exL ⟨events, [⟨0, 6, 7⟩], [(0, 0)]⟩ = true ∧
      eventsBalanced events = true ∧ fpOk events = true ∧ consumesAll exL toks events = true ∧
      kindsAgree exL toks events = true ∧
      sinkText exL src toks events = .ok src := by
  refine ⟨by decide, by decide, by decide, by decide, rfl, by decide, by decide, by decide, by decide,
    by decide, by decide⟩

/-- Sharpness of E1: one `Finish` too many makes rowan's `finish_node` pop an empty stack — the
model's `panic` outcome is reachable, so the sink theorem is not vacuous about it. -/
example : sinkText exL [97] [⟨1, 0, 1⟩] [.start 40 none, .token 1 1, .finish, .finish] = .panic := by
  decide

/-- Sharpness of E2: a forward parent that points at a `Token` event overwrites it (`mem::replace`)
and the token is lost — the tree no longer carries the text. -/
example :
    sinkText exL [97, 98] [⟨1, 0, 1⟩, ⟨1, 1, 2⟩]
      [.start 40 none, .start 50 (some 1), .token 1 1, .finish, .token 1 1, .finish] = .ok [97] := by
  decide

/-- Sharpness of E3: if the parser stops before the end of input the tail of the text is missing. -/
example :
    sinkText exL [97, 98] [⟨1, 0, 1⟩, ⟨1, 1, 2⟩] [.start 40 none, .token 1 1, .finish] = .ok [97] := by
  decide

/-- Sharpness of E4: a `Token` event with a foreign kind re-labels the token it consumes (what a
parser whose cursor ran ahead of the sink's would do); `kindsAgree` rejects the stream. -/
example :
    kindsAgree exL [⟨1, 0, 1⟩, ⟨2, 1, 2⟩] [.start 40 none, .token 1 1, .token 1 1, .finish] = false := by
  decide

/-- Sharpness of the discipline: a `Marker` that is never completed (what the `DropBomb` turns into
a panic) is rejected by `Disciplined`, and so are an unpaired `finish_node`, a second `complete` of
the same marker and a `precede` of a position that is not a completed marker. -/
example : ¬ Disciplined [.start, .bump] ∧ ¬ Disciplined [.bump, .finishNode] ∧
    ¬ Disciplined [.start, .complete 1 50, .complete 1 50] ∧ ¬ Disciplined [.precede 1] := by
  decide

end TrustVerif.C12
