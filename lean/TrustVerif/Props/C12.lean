import TrustVerif.Lemmas.C12

/-!
# C12 — parsing is total and lossless for every input text

Property theorems only.  `Model/C12.lean` mirrors the lexer post-pass of `lexer/mod.rs`, the
Marker / Event operations of `parser/parser.rs`, `Source` of `parser/source.rs`, `Sink::finish` of
`parser/sink.rs` and rowan's `GreenNodeBuilder`.
-/
namespace TrustVerif.C12

/-- **Token ranges are contiguous and non-overlapping (lexer post-pass).**  If the raw logos spans
tile `[a, b)` (contiguous, no empty span), so do the final token ranges after the split of
`IntLiteral`s that end in `.` — for every raw stream, every text and every kind numbering. -/
theorem c12_lex_tiles (L : Lang) (src : List Nat) (raw : List Tok) (a b : Nat)
    (h : tiles raw a b = true) : tiles (postpass L src raw) a b = true :=
  tiles_postpass L src raw a b h

/-- The split position `hi - 1` is a character boundary (the byte there is `.`), so the post-pass
never creates a token range that `&source[lo..hi]` cannot slice. -/
theorem c12_lex_boundaries (L : Lang) (src : List Nat) (raw : List Tok)
    (h : onBoundaries src raw = true) : onBoundaries src (postpass L src raw) = true :=
  onBoundaries_postpass L src raw h

/-- **The concatenated token texts equal the input byte for byte**: the texts of a tiling of
`[0, |src|)` concatenate to `src`. -/
theorem c12_tokens_concat (src : List Nat) (toks : List Tok) (h : tiles toks 0 src.length = true) :
    (toks.map fun t => slice src t.lo t.hi).flatten = src := by
  rw [concat_tiles src toks 0 src.length h, slice_full]

/-- **Sink: total and lossless on every event stream that meets the monitored premises.**  For
every token list that tiles the text on character boundaries and every event list that (E1) is one
bracket when forward parents are ignored, (E2) has forward parents pointing at `Start`/`Placeholder`
events inside the list and (E3) carries enough `Token` events to move the cursor past every token,
`Sink::finish` neither panics nor diverges, returns a node, and the text of that node is the
input.  Forward-parent chains of any length and shape are covered. -/
theorem c12_sink_lossless_events (L : Lang) (src : List Nat) (toks : List Tok) (events : List Event)
    (hT : tiles toks 0 src.length = true) (hB : onBoundaries src toks = true)
    (h1 : eventsBalanced events = true) (h2 : fpOk events = true)
    (h3 : consumesAll L toks events = true) :
    ∃ k cs, sink L src toks events = .ok (Tree.node k cs) ∧ (Tree.node k cs).text = src := by
  simp [eventsBalanced] at h1
  simp [consumesAll] at h3
  exact sink_lossless_core L src toks events hT hB h1.1 h1.2 (fpOk_sound _ h2) h3

end TrustVerif.C12
