import TrustVerif.Lemmas.C13

namespace TrustVerif.C13

end TrustVerif.C13
