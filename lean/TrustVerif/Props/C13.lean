import TrustVerif.Lemmas.C13

/-!
# C13 — incremental analysis equals from-scratch analysis after any edit history

Property theorems only.  `Model/C13.lean` mirrors the file-set bookkeeping of `trust_hir::Database`
(`set_source_text`, `remove_source_text`, the lazy `prepare_salsa_project`, the two query entry
paths) and of `trust_hir::Project`; `Spec` is the history-level definition of "the final texts".

Salsa itself is not modelled: a query returns *what it reads* (`Reads`), and the real answer is
taken to be a fixed function of that value (salsa soundness, DESIGN §4).  Under that assumption the
theorems below say: after **every** history, every query reads exactly the id-sorted listing of the
final texts (resp. the final text of its file), hence answers what a brand-new database loaded with
the final texts answers.
-/
namespace TrustVerif.C13

variable {Text : Type} [DecidableEq Text]

/-- **The three views stay in sync (state clause of the property, every history).**  After any
history `h` of `set / remove / query` operations there is one list `v` — strictly increasing file
ids, exactly the files that have a final text, each with that text — such that the sorted
`Database.sources`, the resolved `SalsaState.sources`, and `ProjectInputs.files` as seen by a
project-keyed query (after the lazy re-sync of `with_synced_salsa_state`) all equal `v`; and
`ProjectInputs.files`, whenever it exists at all, equals `v` even before that re-sync. -/
theorem c13_view (h : List (Op Text)) :
    ∃ v, Spec.IsListing (Spec.final h) v ∧
      viewSources (run h) = v ∧
      viewSalsa (run h) = some v ∧
      viewProject (withSynced (run h)) = some (some v) ∧
      (∀ p, (run h).project = some p → viewProject (run h) = some (some v)) := by
  obtain ⟨i, hm⟩ := rel_run h
  have hsrc := listing_congr hm (viewSources_listing i)
  refine ⟨viewSources (run h), hsrc, rfl, ?_, ?_, ?_⟩
  · obtain ⟨v', hv1, hv2⟩ := resolve_listing i
    rw [listing_unique hsrc (listing_congr hm hv2)]
    exact hv1
  · obtain ⟨w1, w2, w3, w4, w5, w6⟩ := withSynced_fields i
    obtain ⟨v', hv1, hv2⟩ := resolve_listing (inv_withSynced i)
    rw [w1] at hv2
    rw [w2] at hv1
    rw [listing_unique hsrc (listing_congr hm hv2)]
    simp [viewProject, w6, hv1]
  · intro p hp
    obtain ⟨v', hv1, hv2⟩ := resolve_listing i
    rw [listing_unique hsrc (listing_congr hm hv2)]
    simp [viewProject, hp, i.proj p hp, hv1]

/-- **Every query reads the final texts (answer clause, every history, every query).**  After any
history, a query for file `f` reads: nothing (the default answer) iff `f` has no final text;
otherwise, for `analyze / diagnostics / type_of`, the id-sorted listing of *all* final texts, and
for `file_symbols / expr_id_at_offset` the final text of `f`.  In particular it never panics. -/
theorem c13_query_spec (h : List (Op Text)) (v : List (Nat × Text))
    (hv : Spec.IsListing (Spec.final h) v) (k : QKind) (f : Nat) :
    (query (run h) k f).2 = .ok (Spec.reads (Spec.final h) v k f) := by
  obtain ⟨i, hm⟩ := rel_run h
  exact (query_of_inv i hm hv k f).1

/-- **Incremental = from scratch (main clause).**  Two histories with the same final texts —
whatever additions, edits, removals, re-additions and interleaved queries they consist of — give the
same answer to every query. -/
theorem c13_fresh (h₁ h₂ : List (Op Text)) (hf : ∀ f, Spec.final h₁ f = Spec.final h₂ f)
    (k : QKind) (f : Nat) :
    (query (run h₁) k f).2 = (query (run h₂) k f).2 := by
  obtain ⟨v, hv, _⟩ := c13_view h₁
  rw [c13_query_spec h₁ v hv, c13_query_spec h₂ v (listing_congr hf hv)]
  simp [Spec.reads, hf f]

/-- **… in particular a brand-new database loaded with the final texts, in any order.**  `l` is any
enumeration (without repetition) of the final texts of `h`. -/
theorem c13_fresh_load (h : List (Op Text)) (l : List (Nat × Text)) (hn : (keys l).Nodup)
    (hl : ∀ f t, (f, t) ∈ l ↔ Spec.final h f = some t) (k : QKind) (f : Nat) :
    (query (run h) k f).2 = (query (run (loadFresh l)) k f).2 := by
  apply c13_fresh
  intro g
  rw [final_loadFresh l hn]
  cases hg : Spec.final h g with
  | none =>
    cases hl' : lookup l g with
    | none => rfl
    | some t => have := (hl g t).1 (mem_of_lookup hl'); rw [hg] at this; cases this
  | some t => exact (lookup_of_mem hn ((hl g t).2 hg)).symm

/-- The same statement for the *answers*, for every semantics `F` of the queries (the
uninterpreted function that salsa soundness provides). -/
theorem c13_answers {Ans : Type} (F : Reads Text → Ans) (h : List (Op Text))
    (l : List (Nat × Text)) (hn : (keys l).Nodup)
    (hl : ∀ f t, (f, t) ∈ l ↔ Spec.final h f = some t) (k : QKind) (f : Nat) :
    (match (query (run h) k f).2 with | .ok r => some (F r) | .panic => none) =
    (match (query (run (loadFresh l)) k f).2 with | .ok r => some (F r) | .panic => none) := by
  rw [c13_fresh_load h l hn hl]

/-- **No panic in the bookkeeping (panic clause, Database layer only).**  After any history the
`expect("project inputs should be initialized")` of `project_inputs` is never reached with `None`,
and no query dereferences a `SourceInput` that was not created. -/
theorem c13_no_panic (h : List (Op Text)) (k : QKind) (f : Nat) :
    (query (run h) k f).2 ≠ .panic := by
  obtain ⟨v, hv, _⟩ := c13_view h
  rw [c13_query_spec h v hv]
  intro hc
  cases hc

/-- **Repeating a query (repeat clause).**  In *every* state (reachable or not) a query leaves a
state in which the same query changes nothing and returns the same result. -/
theorem c13_repeat (s : Db Text) (k : QKind) (f : Nat) :
    query (query s k f).1 k f = query s k f := by
  cases hk : k.projectKeyed with
  | true =>
    have hfst : (query s k f).1 = withSynced s := by
      unfold query
      simp only [hk, if_true]
      split
      · split
        · rfl
        · split <;> rfl
      · rfl
    rw [hfst]
    unfold query
    simp only [hk, if_true, withSynced_idem]
  | false =>
    unfold query
    simp only [hk, Bool.false_eq_true, if_false]
    unfold sourceHandleForFile
    cases hs : lookup s.salsaSrc f with
    | some hd =>
      simp only
      cases hi : lookup s.inputs hd <;> simp [hs, hi]
    | none =>
      simp only
      unfold sourceInputForFile
      simp only [hs]
      cases hsrc : lookup s.sources f with
      | none => simp [hs, hsrc]
      | some t => simp [newInput, syncProjectInputs, lookup_insert]

/-- **Queries in any order, anywhere (interleaving clause).**  Deleting a query from a history
changes no later answer: which queries were memoised before which edit is irrelevant to what later
queries read. -/
theorem c13_queries_transparent (h₁ h₂ : List (Op Text)) (k k' : QKind) (f f' : Nat) :
    (query (run (h₁ ++ .query k f :: h₂)) k' f').2 = (query (run (h₁ ++ h₂)) k' f').2 := by
  apply c13_fresh
  intro g
  simp [Spec.final, List.foldl_append, Spec.step]

/-- **The lazy re-sync is only ever pending on a database that never held a file.**  So on every
reachable state `prepare_salsa_project` does nothing but create the (empty) `ProjectInputs`:
`set_source_text` / `remove_source_text` keep the salsa inputs in sync eagerly. -/
theorem c13_lazy_sync_only_when_empty (h : List (Op Text)) :
    ((run h).synced ≠ (run h).rev → (run h).sources = [] ∧ (run h).project = none) ∧
    prepareSalsaProject (run h) =
      if (run h).project.isNone then syncProjectInputs (run h) else run h := by
  obtain ⟨i, _⟩ := rel_run h
  exact ⟨i.lazy, prepareSalsaProject_of_inv i⟩

/-! ### Non-vacuity -/

/-- A history with an edit, a removal, a re-addition and interleaved queries; its final texts,
their listing, and what a project-keyed query on file 7 reads (`Text := Nat`). -/
example :
    let h : List (Op Nat) :=
      [.set 7 10, .set 3 20, .query .analyze 7, .set 3 21, .remove 7, .query .fileSymbols 7,
       .set 7 11, .query (.typeOf 4) 3]
    Spec.final h 3 = some 21 ∧ Spec.final h 7 = some 11 ∧ Spec.final h 5 = none ∧
      viewSources (run h) = [(3, 21), (7, 11)] ∧
      (query (run h) .diagnostics 7).2 = .ok (.proj .diagnostics [(3, 21), (7, 11)] 7) ∧
      (query (run h) .fileSymbols 3).2 = .ok (.file .fileSymbols 21) ∧
      (query (run h) .analyze 5).2 = .ok (.dflt .analyze) := by
  decide

/-- `c13_fresh_load` is not vacuous: a listing in *descending* order satisfies its hypotheses. -/
example :
    let h : List (Op Nat) := [.set 7 10, .set 3 20, .remove 7, .set 7 11]
    let l : List (Nat × Nat) := [(7, 11), (3, 20)]
    (keys l).Nodup ∧ (∀ f, Spec.final h f = lookup l f) ∧
      (query (run h) .analyze 3).2 = (query (run (loadFresh l)) .analyze 3).2 := by
  refine ⟨by decide, ?_, by decide⟩
  intro f
  by_cases h7 : f = 7
  · subst h7; decide
  · by_cases h3 : f = 3
    · subst h3; decide
    · simp [Spec.final, Spec.step, lookup, h7, h3, Ne.symm h7, Ne.symm h3]

/-- The pristine state is the one on which the lazy path runs: the first project-keyed query on a
new database creates an empty `ProjectInputs` (and does not panic). -/
example : (query (Db.new : Db Nat) .analyze 0).1.project = some [] ∧
    (query (Db.new : Db Nat) .analyze 0).2 = .ok (.dflt .analyze) := by decide

end TrustVerif.C13
