import TrustVerif.Lemmas.C13

/-!
# C13 — incremental analysis equals from-scratch analysis after any edit history

Property theorems only.  `Model/C13.lean` mirrors the file-set bookkeeping of `trust_hir::Database`
(`set_source_text`, `remove_source_text`, the lazy `prepare_salsa_project`, the two query entry
paths) and of `trust_hir::Project`; `Spec` is the history-level definition of "the final texts".

Salsa itself is not modelled: a query returns *what it reads* (`Reads`), and the real answer is
taken to be a fixed function of that value (salsa soundness, DESIGN §4).  Under that assumption the
theorems below say: after **every** history, every query reads exactly the id-sorted listing of the
final texts (resp. the final text of its file), hence answers what a brand-new database loaded with
the final texts answers.
-/
namespace TrustVerif.C13

variable {Text : Type} [DecidableEq Text]

/-- **The three views stay in sync (state clause of the property, every history).**  After any
history `h` of `set / remove / query` operations there is one list `v` — strictly increasing file
ids, exactly the files that have a final text, each with that text — such that the sorted
`Database.sources`, the resolved `SalsaState.sources`, and `ProjectInputs.files` as seen by a
project-keyed query (after the lazy re-sync of `with_synced_salsa_state`) all equal `v`; and
`ProjectInputs.files`, whenever it exists at all, equals `v` even before that re-sync. -/
theorem c13_view (h : List (Op Text)) :
    ∃ v, Spec.IsListing (Spec.final h) v ∧
      viewSources (run h) = v ∧
      viewSalsa (run h) = some v ∧
      viewProject (withSynced (run h)) = some (some v) ∧
      (∀ p, (run h).project = some p → viewProject (run h) = some (some v)) := by
  obtain ⟨i, hm⟩ := rel_run h
  have hsrc := listing_congr hm (viewSources_listing i)
  refine ⟨viewSources (run h), hsrc, rfl, ?_, ?_, ?_⟩
  · obtain ⟨v', hv1, hv2⟩ := resolve_listing i
    rw [listing_unique hsrc (listing_congr hm hv2)]
    exact hv1
  · obtain ⟨w1, w2, w3, w4, w5, w6⟩ := withSynced_fields i
    obtain ⟨v', hv1, hv2⟩ := resolve_listing (inv_withSynced i)
    rw [w1] at hv2
    rw [w2] at hv1
    rw [listing_unique hsrc (listing_congr hm hv2)]
    simp [viewProject, w6, hv1]
  · intro p hp
    obtain ⟨v', hv1, hv2⟩ := resolve_listing i
    rw [listing_unique hsrc (listing_congr hm hv2)]
    simp [viewProject, hp, i.proj p hp, hv1]

/-- **Every query reads the final texts (answer clause, every history, every query).**  After any
history, a query for file `f` reads: nothing (the default answer) iff `f` has no final text;
otherwise, for `analyze / diagnostics / type_of`, the id-sorted listing of *all* final texts, and
for `file_symbols / expr_id_at_offset` the final text of `f`.  In particular it never panics. -/
theorem c13_query_spec (h : List (Op Text)) (v : List (Nat × Text))
    (hv : Spec.IsListing (Spec.final h) v) (k : QKind) (f : Nat) :
    (query (run h) k f).2 = .ok (Spec.reads (Spec.final h) v k f) := by
  obtain ⟨i, hm⟩ := rel_run h
  exact (query_of_inv i hm hv k f).1

/-- **Incremental = from scratch (main clause).**  Two histories with the same final texts —
whatever additions, edits, removals, re-additions and interleaved queries they consist of — give the
same answer to every query. -/
theorem c13_fresh (h₁ h₂ : List (Op Text)) (hf : ∀ f, Spec.final h₁ f = Spec.final h₂ f)
    (k : QKind) (f : Nat) :
    (query (run h₁) k f).2 = (query (run h₂) k f).2 := by
  obtain ⟨v, hv, _⟩ := c13_view h₁
  rw [c13_query_spec h₁ v hv, c13_query_spec h₂ v (listing_congr hf hv)]
  simp [Spec.reads, hf f]

/-- **… in particular a brand-new database loaded with the final texts, in any order.**  `l` is any
enumeration (without repetition) of the final texts of `h`. -/
theorem c13_fresh_load (h : List (Op Text)) (l : List (Nat × Text)) (hn : (keys l).Nodup)
    (hl : ∀ f t, (f, t) ∈ l ↔ Spec.final h f = some t) (k : QKind) (f : Nat) :
    (query (run h) k f).2 = (query (run (loadFresh l)) k f).2 := by
  apply c13_fresh
  intro g
  rw [final_loadFresh l hn]
  cases hg : Spec.final h g with
  | none =>
    cases hl' : lookup l g with
    | none => rfl
    | some t => have := (hl g t).1 (mem_of_lookup hl'); rw [hg] at this; cases this
  | some t => exact (lookup_of_mem hn ((hl g t).2 hg)).symm

/-- The same statement for the *answers*, for every semantics `F` of the queries (the
uninterpreted function that salsa soundness provides). -/
theorem c13_answers {Ans : Type} (F : Reads Text → Ans) (h : List (Op Text))
    (l : List (Nat × Text)) (hn : (keys l).Nodup)
    (hl : ∀ f t, (f, t) ∈ l ↔ Spec.final h f = some t) (k : QKind) (f : Nat) :
    (match (query (run h) k f).2 with | .ok r => some (F r) | .panic => none) =
    (match (query (run (loadFresh l)) k f).2 with | .ok r => some (F r) | .panic => none) := by
  rw [c13_fresh_load h l hn hl]

/-- **No panic in the bookkeeping (panic clause, Database layer only).**  After any history the
`expect("project inputs should be initialized")` of `project_inputs` is never reached with `None`,
and no query dereferences a `SourceInput` that was not created. -/
theorem c13_no_panic (h : List (Op Text)) (k : QKind) (f : Nat) :
    (query (run h) k f).2 ≠ .panic := by
  obtain ⟨v, hv, _⟩ := c13_view h
  rw [c13_query_spec h v hv]
  intro hc
  cases hc

/-- **Repeating a query (repeat clause).**  In *every* state (reachable or not) a query leaves a
state in which the same query changes nothing and returns the same result. -/
theorem c13_repeat (s : Db Text) (k : QKind) (f : Nat) :
    query (query s k f).1 k f = query s k f := by
  cases hk : k.projectKeyed with
  | true =>
    have hfst : (query s k f).1 = withSynced s := by
      unfold query
      simp only [hk, if_true]
      split
      · rfl
      · split
        · split <;> rfl
        · rfl
    rw [hfst]
    unfold query
    simp only [hk, if_true, withSynced_idem]
  | false =>
    unfold query
    simp only [hk, Bool.false_eq_true, if_false]
    unfold sourceHandleForFile
    cases hs : lookup s.salsaSrc f with
    | some hd =>
      simp only
      cases hi : lookup s.inputs hd <;> simp [hs, hi]
    | none =>
      simp only
      unfold sourceInputForFile
      simp only [hs]
      cases hsrc : lookup s.sources f with
      | none => simp [hs, hsrc]
      | some t => simp [newInput, syncProjectInputs, lookup_insert]

/-- **Queries in any order, anywhere (interleaving clause).**  Deleting a query from a history
changes no later answer: which queries were memoised before which edit is irrelevant to what later
queries read. -/
theorem c13_queries_transparent (h₁ h₂ : List (Op Text)) (k k' : QKind) (f f' : Nat) :
    (query (run (h₁ ++ .query k f :: h₂)) k' f').2 = (query (run (h₁ ++ h₂)) k' f').2 := by
  apply c13_fresh
  intro g
  simp [Spec.final, List.foldl_append, Spec.step]

omit [DecidableEq Text] in
/-- **The unspecified iteration order of the hash maps does not matter.**  `sync_project_inputs`
collects `SalsaState.sources` in hash-map order and sorts by file id: whatever enumeration of the
same map it starts from, the resulting `ProjectInputs.files` is the same list (and look-ups do not
depend on the enumeration either).  The only other loop over a hash map, in
`prepare_salsa_project`, is a no-op on every reachable state (next theorem). -/
theorem c13_sync_order_independent (s s' : Db Text) (hp : s.salsaSrc.Perm s'.salsaSrc)
    (hn : (keys s.salsaSrc).Nodup) :
    (syncProjectInputs s).project = (syncProjectInputs s').project ∧
      ∀ f, lookup s.salsaSrc f = lookup s'.salsaSrc f := by
  refine ⟨?_, lookup_perm _ _ hp hn⟩
  simp [syncProjectInputs, sortById_perm_eq _ _ hp hn]

/-- **The lazy re-sync is only ever pending on a database that never held a file.**  So on every
reachable state `prepare_salsa_project` does nothing but create the (empty) `ProjectInputs`:
`set_source_text` / `remove_source_text` keep the salsa inputs in sync eagerly. -/
theorem c13_lazy_sync_only_when_empty (h : List (Op Text)) :
    ((run h).synced ≠ (run h).rev → (run h).sources = [] ∧ (run h).project = none) ∧
    prepareSalsaProject (run h) =
      if (run h).project.isNone then syncProjectInputs (run h) else run h := by
  obtain ⟨i, _⟩ := rel_run h
  exact ⟨i.lazy, prepareSalsaProject_of_inv i⟩

/-! ### One level up: `Project` (layer note of the design; reported, not part of the claim)

At the `Project` layer files are identified by *keys*; `SourceRegistry::ensure_file_id` hands out
file ids from a counter that only grows, so a key that is removed and re-added gets a new id. -/

/-- **Project layer, texts.**  After any history of `set / remove / query` by key (shorter than
2³² operations, the range of the `u32` id counter), the database under the project holds exactly
the final texts: every key's file has the key's final text, two keys never share a file id, and the
database contains no file that belongs to no key. -/
theorem c13_project_view (h : List (Op Text)) (hn : h.length ≤ u32Max) :
    (∀ key, (lookup (projRun h).ids key).bind (lookup (projRun h).db.sources) = Spec.final h key) ∧
    (∀ k₁ k₂ id, lookup (projRun h).ids k₁ = some id → lookup (projRun h).ids k₂ = some id → k₁ = k₂) ∧
    (∀ id t, lookup (projRun h).db.sources id = some t →
      ∃ key, lookup (projRun h).ids key = some id ∧ Spec.final h key = some t) := by
  have i := pinv_run h hn
  refine ⟨i.spec, i.inj, ?_⟩
  intro id t ht
  obtain ⟨key, hk⟩ := i.orphan id (by simp [ht])
  refine ⟨key, hk, ?_⟩
  rw [← i.spec key, hk]
  exact ht

/-- **Project layer, answers, given the ids.**  The answers of a project after any history are
those of a brand-new *database* loaded with the same `(file id, text)` pairs in any order.  What a
brand-new *project* may not reproduce is only the assignment of ids to keys (next two theorems). -/
theorem c13_project_db_fresh (h : List (Op Text)) (hn : h.length ≤ u32Max)
    (l : List (Nat × Text)) (hl : (keys l).Nodup)
    (hm : ∀ id t, (id, t) ∈ l ↔ lookup (projRun h).db.sources id = some t) (k : QKind) (id : Nat) :
    (query (projRun h).db k id).2 = (query (run (loadFresh l)) k id).2 := by
  have i := (pinv_run h hn).db
  have hv := viewSources_listing i
  rw [(query_of_inv i (fun g => rfl) hv k id).1]
  have hfin : ∀ g, lookup (projRun h).db.sources g = Spec.final (loadFresh l) g := by
    intro g
    rw [final_loadFresh l hl]
    cases hg : lookup (projRun h).db.sources g with
    | none =>
      cases hl' : lookup l g with
      | none => rfl
      | some t => have := (hm g t).1 (mem_of_lookup hl'); rw [hg] at this; cases this
    | some t => exact (lookup_of_mem hl ((hm g t).2 hg)).symm
  rw [c13_query_spec (loadFresh l) _ (listing_congr hfin hv)]
  simp [Spec.reads, hfin id]

/-- **A (re-)added key goes last.**  A key without an id — never seen, or removed before — gets an
id above every id in use, so in the id-sorted `ProjectInputs.files`, and hence in the order of
cross-file symbol import, its file comes after all others, wherever it was before its removal. -/
theorem c13_project_readd_moves_last (h : List (Op Text)) (hn : h.length < u32Max) (key : Nat)
    (t : Text) (hk : lookup (projRun h).ids key = none) :
    ∃ id, lookup (projSet (projRun h) key t).ids key = some id ∧
      ∀ k' id', k' ≠ key → lookup (projSet (projRun h) key t).ids k' = some id' → id' < id := by
  have i := pinv_run h (Nat.le_of_lt hn)
  refine ⟨(projRun h).nextId, ?_, ?_⟩
  · simp [projSet, ensureFileId, hk, lookup_insert]
  · intro k' id' hne hk'
    have hne' : ¬ key = k' := fun e => hne e.symm
    simp [projSet, ensureFileId, hk, lookup_insert, hne'] at hk'
    exact i.bound k' id' hk'

/-- **Counterexample at the Project layer (why the claim is made at the Database layer).**
Keys 0 and 1 with texts 100 and 101: after `add 0, add 1, remove 0, re-add 0` the final texts are
those of a fresh load `add 0, add 1`, but key 0 now has id 2 > id 1 of key 1, so the id-sorted list
that every project-keyed query reads carries the texts in the order `[101, 100]` instead of
`[100, 101]`.  Any answer that depends on the order of the files (cross-file import is "first
definition in id order wins") may therefore differ from the fresh project's. -/
theorem c13_project_order_counterexample :
    let h : List (Op Nat) := [.set 0 100, .set 1 101, .remove 0, .set 0 100]
    let fresh : List (Op Nat) := loadFresh [(0, 100), (1, 101)]
    (∀ key, Spec.final h key = Spec.final fresh key) ∧
    viewSources (projRun h).db = [(1, 101), (2, 100)] ∧
    viewSources (projRun fresh).db = [(0, 100), (1, 101)] ∧
    (query (projRun h).db .analyze 2).2 = .ok (.proj .analyze [(1, 101), (2, 100)] 2) ∧
    (query (projRun fresh).db .analyze 0).2 = .ok (.proj .analyze [(0, 100), (1, 101)] 0) := by
  refine ⟨?_, by decide, by decide, by decide, by decide⟩
  intro key
  by_cases h0 : key = 0
  · subst h0; decide
  · by_cases h1 : key = 1
    · subst h1; decide
    · simp [Spec.final, Spec.step, loadFresh, h0, h1]

/-- **Project layer, partial claim.**  Guard: the brand-new project (loaded with an enumeration `l`
of the final texts by key) hands out the *same file ids* as the history did — true e.g. when no key
was ever removed and the fresh load follows the order of first appearance, false exactly when a
re-added key has moved (previous theorems).  Under that guard every query by key reads the same in
the incremental and in the fresh project. -/
theorem c13_project_fresh_partial (h : List (Op Text)) (hn : h.length ≤ u32Max)
    (l : List (Nat × Text)) (hl : (keys l).Nodup) (hln : l.length ≤ u32Max)
    (hm : ∀ key t, (key, t) ∈ l ↔ Spec.final h key = some t)
    (guard : ∀ key, lookup (projRun h).ids key = lookup (projRun (loadFresh l)).ids key)
    (k : QKind) (key : Nat) :
    (projQuery (projRun h) k key).2 = (projQuery (projRun (loadFresh l)) k key).2 := by
  have hlen : (loadFresh l).length ≤ u32Max := by simpa [loadFresh] using hln
  have i₁ := pinv_run h hn
  have i₂ := pinv_run (loadFresh l) hlen
  -- the two projects agree on the final texts by key …
  have hfin : ∀ g, Spec.final (loadFresh l) g = Spec.final h g := by
    intro g
    rw [final_loadFresh l hl]
    cases hg : Spec.final h g with
    | none =>
      cases hl' : lookup l g with
      | none => rfl
      | some t => have := (hm g t).1 (mem_of_lookup hl'); rw [hg] at this; cases this
    | some t => exact lookup_of_mem hl ((hm g t).2 hg)
  -- … hence, with the same ids, on the text of every file id
  have hsrc : ∀ id, lookup (projRun h).db.sources id = lookup (projRun (loadFresh l)).db.sources id := by
    intro id
    cases h1 : lookup (projRun h).db.sources id with
    | some t =>
      obtain ⟨key', hk'⟩ := i₁.orphan id (by simp [h1])
      have e1 := i₁.spec key'
      have e2 := i₂.spec key'
      rw [hk'] at e1
      rw [← guard key', hk'] at e2
      simp only [Option.bind] at e1 e2
      rw [e2, hfin key', ← e1, h1]
    | none =>
      cases h2 : lookup (projRun (loadFresh l)).db.sources id with
      | none => rfl
      | some t =>
        obtain ⟨key', hk'⟩ := i₂.orphan id (by simp [h2])
        have e1 := i₁.spec key'
        have e2 := i₂.spec key'
        rw [hk'] at e2
        rw [guard key', hk'] at e1
        simp only [Option.bind] at e1 e2
        rw [h1] at e1
        rw [h2, hfin key', ← e1] at e2
        cases e2
  unfold projQuery
  rw [← guard key]
  cases hk : lookup (projRun h).ids key with
  | none => rfl
  | some id =>
    simp only
    have hv := viewSources_listing i₁.db
    rw [(query_of_inv i₁.db (fun g => rfl) hv k id).1,
        (query_of_inv i₂.db (fun g => (hsrc g).symm) hv k id).1]

/-- **Document layer: the view theorem over the extended alphabet (set / remove / query / rename).**
`rename_document` is `remove(old); remove(new); set(new, text)` on canonical keys, where `old = new`
is possible (two spellings of one file).  After any history (fewer than 2³²/3 operations) the
database under the project holds exactly the final texts by key — for a rename: the new key has the
old key's text and the old key, if it is a different one, has none — two keys never share a file id,
and no file belongs to no key. -/
theorem c13_project_view_rename (h : List (POp Text)) (hn : 3 * h.length ≤ u32Max) :
    (∀ key, projText (projRunX h) key = Spec.finalX h key) ∧
    (∀ k₁ k₂ id, lookup (projRunX h).ids k₁ = some id → lookup (projRunX h).ids k₂ = some id → k₁ = k₂) ∧
    (∀ id t, lookup (projRunX h).db.sources id = some t →
      ∃ key, lookup (projRunX h).ids key = some id ∧ Spec.finalX h key = some t) := by
  have i := pinv_runX h hn
  refine ⟨i.spec, i.inj, ?_⟩
  intro id t ht
  obtain ⟨key, hk⟩ := i.orphan id (by simp [ht])
  refine ⟨key, hk, ?_⟩
  have := i.spec key
  rw [hk] at this
  rw [← this]
  exact ht

/-- **An aliasing rename keeps the file.**  Renaming a key that has a text to *itself* (the two
URIs canonicalise to the same `SourceKey`) leaves every key's text as it was — in particular the
renamed document is still in the project.  (With the two project calls in the other order,
`set(new); remove(old)`, the file would be gone: that is the seeded change this layer was added for.) -/
theorem c13_alias_rename_keeps_text (h : List (POp Text)) (hn : 3 * (h.length + 1) ≤ u32Max)
    (key : Nat) (g : Nat) :
    projText (projRunX (h ++ [.rename key key])) g = projText (projRunX h) g := by
  have hlen : (h ++ [POp.rename key key]).length = h.length + 1 := by simp
  have i₁ := pinv_runX (h ++ [POp.rename key key]) (by rw [hlen]; exact hn)
  have i₂ := pinv_runX h (by omega)
  have e₁ : projText (projRunX (h ++ [POp.rename key key])) g = _ := i₁.spec g
  have e₂ : projText (projRunX h) g = _ := i₂.spec g
  rw [e₁, e₂]
  simp only [Spec.finalX, List.foldl_append, List.foldl_cons, List.foldl_nil, Spec.stepX]
  cases hm : List.foldl Spec.stepX (fun _ => none) h key with
  | none => rfl
  | some t =>
    simp only
    by_cases e : g = key
    · simp [e, hm]
    · simp [e]

/-! ### Document layer: documents and project sources stay in step (memory budget included) -/

/-- **Document layer, every history incl. evictions under the memory budget.**  After any history
of didOpen / index / didChange / didClose / delete events and budget passes with ANY choice of
(closed) victims, from a client that keeps the protocol, the project holds a text for a key exactly
when the document layer holds a document for it, and that text is the document's content: the
analysis is the analysis of the documents held.  (This is the statement the fresh-server oracle
tests on budget sessions.) -/
theorem c13_doclayer_in_step (h : List (DOp Text)) (hw : docWf DocLayer.new h) :
    ∀ k, (docRun h).src k = ((docRun h).doc k).map (·.1) :=
  docRun_inv_from h DocLayer.new (fun _ => rfl) hw

/-- **A deleted file leaves the analysis, whatever was evicted before.**  After the delete event for
`k` the project has no text for `k` — also when the document had been evicted earlier (then
`remove_document` returns early, and by `c13_doclayer_in_step` there was nothing left to remove).
An eviction that dropped only the document would make exactly this false: the seeded change this
part of the model was added for. -/
theorem c13_doclayer_deleted_is_gone (h : List (DOp Text)) (hw : docWf DocLayer.new h) (k : Nat) :
    (docRun (h ++ [.remove k])).src k = none ∧ (docRun (h ++ [.remove k])).doc k = none := by
  have i := c13_doclayer_in_step h hw k
  simp only [docRun, List.foldl_append, List.foldl_cons, List.foldl_nil, docStep] at *
  unfold docRemove
  cases hd : (List.foldl docStep DocLayer.new h).doc k with
  | none =>
    rw [hd] at i
    exact ⟨i, hd⟩
  | some d => simp [upd]

omit [DecidableEq Text] in
/-- **Eviction takes closed documents only.**  A document that is open survives every budget pass,
with its text. -/
theorem c13_doclayer_evict_keeps_open (s : DocLayer Text) (ks : List Nat) (k : Nat) (c : Text)
    (ho : s.doc k = some (c, true)) :
    (ks.foldl docEvict1 s).doc k = some (c, true) ∧ (ks.foldl docEvict1 s).src k = s.src k := by
  induction ks generalizing s with
  | nil => exact ⟨ho, rfl⟩
  | cons j ks ih =>
    have key : (docEvict1 s j).doc k = some (c, true) ∧ (docEvict1 s j).src k = s.src k := by
      unfold docEvict1
      split
      · rename_i c' hj
        have ne : k ≠ j := by
          intro e; subst e; rw [ho] at hj; cases hj
        unfold docRemove
        simp [hj, upd, ne, ho]
      · exact ⟨ho, rfl⟩
    obtain ⟨h1, h2⟩ := ih (docEvict1 s j) key.1
    exact ⟨h1, h2.trans key.2⟩

/-! ### A repaired finding in the analysis itself (`C13-enum-next-value-overflow`, fixed by 0bd32a4)

The clause "no query panics for any file contents" is about the queries, which the model leaves
uninterpreted; it is tested, not proved.  The one place where the test stream found it false —
`next_value = value + 1` in `collect_enum_type` for an enumeration value of `i64::MAX` — is
modelled, and after the fix (`saturating_add`) the full statement holds for it. -/

/-- **Enumeration values never overflow.**  For every mixture of explicit values (any `i64`) and
implicit ones, every value assigned by `collect_enum_type` and every intermediate `next_value` is an
`i64`: the arithmetic of the model never leaves the range in which `i64::saturating_add` is exact,
so there is no overflow to panic on (dev profile) or to wrap (release). -/
theorem c13_enum_values_no_overflow (l : List (Option Int)) (next : Int)
    (hnext : i64Min ≤ next ∧ next ≤ i64Max)
    (hexp : ∀ v, some v ∈ l → i64Min ≤ v ∧ v ≤ i64Max) :
    ∀ x ∈ enumAssign l next, i64Min ≤ x ∧ x ≤ i64Max := by
  induction l generalizing next with
  | nil => simp [enumAssign]
  | cons e rest ih =>
    have hval : i64Min ≤ e.getD next ∧ e.getD next ≤ i64Max := by
      cases e with
      | none => simpa using hnext
      | some v => simpa using hexp v (List.mem_cons_self ..)
    have hsucc : i64Min ≤ satSucc (e.getD next) ∧ satSucc (e.getD next) ≤ i64Max := by
      unfold satSucc
      split
      · unfold i64Min i64Max; omega
      · unfold i64Min at *; omega
    intro x hx
    unfold enumAssign at hx
    rcases List.mem_cons.1 hx with rfl | hx
    · exact hval
    · exact ih _ hsucc (fun v hv => hexp v (List.mem_cons_of_mem _ hv)) x hx

/-- Below the saturation point nothing changed: an implicit value is its predecessor plus one. -/
theorem c13_enum_values_consecutive (e : Option Int) (rest : List (Option Int)) (next : Int)
    (h : e.getD next < i64Max) :
    enumAssign (e :: none :: rest) next =
      e.getD next :: (e.getD next + 1) :: enumAssign rest (satSucc (e.getD next + 1)) := by
  have : satSucc (e.getD next) = e.getD next + 1 := by
    unfold satSucc
    have : ¬ e.getD next + 1 > i64Max := by omega
    simp [this]
  simp [enumAssign, this]

/-! ### Non-vacuity -/

/-- A history with an edit, a removal, a re-addition and interleaved queries; its final texts,
their listing, and what a project-keyed query on file 7 reads (`Text := Nat`). -/
example :
    let h : List (Op Nat) :=
      [.set 7 10, .set 3 20, .query .analyze 7, .set 3 21, .remove 7, .query .fileSymbols 7,
       .set 7 11, .query (.typeOf 4) 3]
    Spec.final h 3 = some 21 ∧ Spec.final h 7 = some 11 ∧ Spec.final h 5 = none ∧
      viewSources (run h) = [(3, 21), (7, 11)] ∧
      (query (run h) .diagnostics 7).2 = .ok (.proj .diagnostics [(3, 21), (7, 11)] 7) ∧
      (query (run h) .fileSymbols 3).2 = .ok (.file .fileSymbols 21) ∧
      (query (run h) .analyze 5).2 = .ok (.dflt .analyze) := by
  decide

/-- `c13_fresh_load` is not vacuous: a listing in *descending* order satisfies its hypotheses. -/
example :
    let h : List (Op Nat) := [.set 7 10, .set 3 20, .remove 7, .set 7 11]
    let l : List (Nat × Nat) := [(7, 11), (3, 20)]
    (keys l).Nodup ∧ (∀ f, Spec.final h f = lookup l f) ∧
      (query (run h) .analyze 3).2 = (query (run (loadFresh l)) .analyze 3).2 := by
  refine ⟨by decide, ?_, by decide⟩
  intro f
  by_cases h7 : f = 7
  · subst h7; decide
  · by_cases h3 : f = 3
    · subst h3; decide
    · simp [Spec.final, Spec.step, lookup, h7, h3, Ne.symm h7, Ne.symm h3]

/-- `c13_sync_order_independent` is not vacuous: two enumerations of the same two-file map. -/
example :
    let s : Db Nat := { (Db.new : Db Nat) with salsaSrc := [(3, 0), (1, 1)] }
    let s' : Db Nat := { (Db.new : Db Nat) with salsaSrc := [(1, 1), (3, 0)] }
    s.salsaSrc.Perm s'.salsaSrc ∧ (keys s.salsaSrc).Nodup ∧
      (syncProjectInputs s).project = some [(1, 1), (3, 0)] := by
  refine ⟨List.Perm.swap _ _ _, by decide, by decide⟩

/-- The pristine state is the one on which the lazy path runs: the first project-keyed query on a
new database creates an empty `ProjectInputs` (and does not panic). -/
example : (query (Db.new : Db Nat) .analyze 0).1.project = some [] ∧
    (query (Db.new : Db Nat) .analyze 0).2 = .ok (.dflt .analyze) := by decide

/-- `c13_project_readd_moves_last` is not vacuous: key 0 was removed, has no id, and is re-added. -/
example :
    let h : List (Op Nat) := [.set 0 100, .set 1 101, .remove 0]
    lookup (projRun h).ids 0 = none ∧ lookup (projSet (projRun h) 0 100).ids 0 = some 2 ∧
      lookup (projSet (projRun h) 0 100).ids 1 = some 1 := by
  decide

/-- `c13_project_fresh_partial` is not vacuous: an edit history without removals and the fresh load
in order of first appearance hand out the same ids. -/
example :
    let h : List (Op Nat) := [.set 0 100, .set 1 101, .query .analyze 1, .set 0 102]
    let l : List (Nat × Nat) := [(0, 102), (1, 101)]
    (∀ key, lookup (projRun h).ids key = lookup (projRun (loadFresh l)).ids key) ∧
      (projQuery (projRun h) .analyze 1).2 = some (.ok (.proj .analyze [(0, 102), (1, 101)] 1)) := by
  refine ⟨?_, by decide⟩
  intro key
  have e1 : (projRun ([.set 0 100, .set 1 101, .query .analyze 1, .set 0 102] : List (Op Nat))).ids = [(0, 0), (1, 1)] := by decide
  have e2 : (projRun (loadFresh ([(0, 102), (1, 101)] : List (Nat × Nat)))).ids = [(0, 0), (1, 1)] := by decide
  simp only [e1, e2]

/-- Regression of the former counterexample: `E : (A := 9223372036854775807, B)` — the explicit
`i64::MAX` no longer overflows, the implicit successor repeats `i64::MAX`; and an ordinary mixture. -/
example : enumAssign [some i64Max, none] 0 = [i64Max, i64Max] ∧
    enumAssign [none, some 5, none, some (i64Max - 1), none] 0 = [0, 5, 6, i64Max - 1, i64Max] := by
  decide

/-- Renames, ordinary and aliasing, on a concrete history: key 0 is renamed to key 5 and key 1 to
itself; both texts survive, key 5 gets a new file id, and the re-registered key 1 moves last. -/
example :
    let h : List (POp Nat) := [.op (.set 0 100), .op (.set 1 101), .rename 0 5, .rename 1 1, .rename 9 2]
    projText (projRunX h) 5 = some 100 ∧ projText (projRunX h) 0 = none ∧
      projText (projRunX h) 1 = some 101 ∧ projText (projRunX h) 2 = none ∧
      sortById (projRunX h).ids = [(1, 3), (5, 2)] := by
  decide

/-- `c13_doclayer_in_step` / `c13_doclayer_deleted_is_gone` are not vacuous: the history of the budget
regression session — library indexed, user opened and edited, a second big file indexed, the library
evicted, then deleted — keeps the protocol; the library is gone, the user's text is the edited one. -/
example :
    docWf (DocLayer.new : DocLayer Nat)
      [.index 0 10, .index 1 11, .openDoc 1 11, .change 1 12, .index 2 13, .evict [0], .remove 0] ∧
    (docRun ([.index 0 10, .index 1 11, .openDoc 1 11, .change 1 12, .index 2 13, .evict [0], .remove 0] :
      List (DOp Nat))).src 0 = none ∧
    (docRun ([.index 0 10, .index 1 11, .openDoc 1 11, .change 1 12, .index 2 13, .evict [0], .remove 0] :
      List (DOp Nat))).src 1 = some 12 := by
  refine ⟨?_, by decide, by decide⟩
  simp [docWf, docStep, upd, DocLayer.new]

end TrustVerif.C13
