import TrustVerif.Lemmas.C14

/-!
# C14 — the language server keeps the same document text as the editor

Property theorems only.  `Model/C14.lean` mirrors `position_to_offset`, `offset_to_line_col`,
`apply_content_changes` and the text/version part of `did_open`/`did_change`/`did_close`
(`Impl`); `Spec` is the editor: the document as UTF-16 code units, LSP lines (`\n`, `\r\n`, `\r`),
a change replaces the unit range `[start, end)`.

Guard of the agreement theorems (`Spec.lfOrCrlf`, `Spec.lfChanges`, `Spec.lfEvent`,
`Spec.lfHistory`): the buffers addressed by ranged changes use `\n` / `\r\n` line ends.  It is
necessary: `c14_counterexample_lone_cr` (known finding C14-lone-cr).  File events need no guard
(`c14_deleted_keeps_open`; the defect C14-deleted-event-drops-open-document is repaired in /repo).
-/
namespace TrustVerif.C14

/-- **One incremental change (clause "the text the server analyses equals the text the editor
holds", single step).**  For every text `s`, every inserted text `t` and every range: if the
editor can produce the change on its UTF-16 buffer (`Spec.applyChange … = some us'`: both
positions exist, are not inside a surrogate pair, start ≤ end) then `apply_content_changes`
accepts it, does not panic, and the server's new text encodes to exactly the editor's new
buffer.  Unbounded in text length, line count, characters (ASCII … astral plane) and positions. -/
theorem c14_apply (s t : List Char) (sl sc el ec : Nat) (us' : List Nat)
    (hlf : Spec.lfOrCrlf (encode16 s) = true)
    (h : Spec.applyChange (encode16 s) (.range sl sc el ec (encode16 t)) = some us') :
    ∃ s', Impl.applyChange s (.range sl sc el ec t) = .ok s' ∧ encode16 s' = us' :=
  applyChange_range_spec s t sl sc el ec us' hlf h

/-- `c14_apply` is the guarded (`_partial`) form: without `lfOrCrlf` the statement is false
(`c14_counterexample_lone_cr`, known finding C14-lone-cr); the guard is decidable and holds for
every document with `\n` or `\r\n` line ends. -/
theorem c14_apply_partial (s t : List Char) (sl sc el ec : Nat) (us' : List Nat)
    (hlf : Spec.lfOrCrlf (encode16 s) = true)
    (h : Spec.applyChange (encode16 s) (.range sl sc el ec (encode16 t)) = some us') :
    ∃ s', Impl.applyChange s (.range sl sc el ec t) = .ok s' ∧ encode16 s' = us' :=
  c14_apply s t sl sc el ec us' hlf h

/-- **A whole `didChange` notification (multi-change, ranged and full-text changes mixed):** each
change is resolved on the text produced by the previous one, on both sides; the results agree. -/
theorem c14_changes (s : List Char) (cs : List Impl.Change) (us' : List Nat)
    (hlf : Spec.lfChanges (encode16 s) (cs.map encodeChange) = true)
    (h : Spec.applyChanges (encode16 s) (cs.map encodeChange) = some us') :
    ∃ s', Impl.applyContentChanges s cs = .ok s' ∧ encode16 s' = us' :=
  applyContentChanges_spec cs s us' hlf h

/-- **Every history (clause "for every document and every sequence of incremental or full change
notifications").**  The event alphabet is `didOpen` / `didChange` / `didClose` / `didSave` and
what happens to the document's file behind the editor's back: `workspace/didChangeWatchedFiles`
CREATED / CHANGED / DELETED for its URI and workspace indexing passes, each with an arbitrary
disk text.  For every such sequence an editor can produce (`Spec.run … = some ed`), starting from
an untracked document, the server's `Document` agrees with the editor's copy after the whole
sequence (and after every event, `c14_history_every_step`): same text, same version, open, and
the analysis database reads that text — an open document ignores the disk (the `is_open` guards of
`index_document_impl` and of the DELETED branch), a closed one takes the disk text or is forgotten; not open on the server when the editor
has closed it.  Induction over the history, no bound. -/
theorem c14_history (evs : List Impl.Event) (ed : Option Spec.Doc)
    (hlf : Spec.lfHistory none (evs.map encodeEvent) = true)
    (h : Spec.run none (evs.map encodeEvent) = some ed) :
    Agree (Impl.run none evs) ed :=
  run_agree evs none none ed (by intro d hd; cases hd) hlf h

/-- **… after every notification, not only at the end.**  Cut an editor history anywhere
(`evs = a ++ b`): the prefix `a` is itself an editor history and the server agrees with the
editor's copy right after it. -/
theorem c14_history_every_step (a b : List Impl.Event) (ed : Option Spec.Doc)
    (hlf : Spec.lfHistory none ((a ++ b).map encodeEvent) = true)
    (h : Spec.run none ((a ++ b).map encodeEvent) = some ed) :
    ∃ ed1, Spec.run none (a.map encodeEvent) = some ed1 ∧ Agree (Impl.run none a) ed1 := by
  rw [List.map_append] at hlf h
  obtain ⟨ed1, h1, _⟩ := Spec.run_prefix _ _ none ed h
  exact ⟨ed1, h1, c14_history a ed1 (Spec.lfHistory_prefix _ _ none hlf) h1⟩

/-- **Workspace histories: several documents, and renames.**  The same for every history of a
workspace: events of any number of documents interleaved, and `workspace/didRenameFiles` — the
file of an open document is renamed (also back, also onto the path of a file the server tracks as
closed: the buffer moves to the new URI with its text, version and open flag, `rename_document`),
or a file that is not open is renamed (the old entry goes, the new path is registered from disk,
and an open document at that path ignores it).  After every such history every URI agrees. -/
theorem c14_workspace_history (evs : List Impl.WEvent) (ed : Spec.Store)
    (hlf : Spec.lfWHistory (fun _ => none) (evs.map encodeWEvent) = true)
    (h : Spec.wrun (fun _ => none) (evs.map encodeWEvent) = some ed) :
    AgreeAll (Impl.wrun (fun _ => none) evs) ed :=
  wrun_agree evs (fun _ => none) (fun _ => none) ed (fun _ => agree_none_none) hlf h

/-- **`semanticTokens/full/delta`: the editor that applies the delta holds the current tokens.**
For all token arrays `previous` (what the editor holds and the server cached) and `current`:
applying the edits `semantic_tokens_delta_edits(previous, current)` to `previous` yields exactly
`current` — the common suffix is bounded by what the common prefix leaves of BOTH arrays, so
prefix and suffix never overlap (deleting one of several look-alike lines). -/
theorem c14_token_delta {α : Type} [DecidableEq α] (previous current : List α) :
    Spec.applyTokEdits previous (Impl.deltaEdits previous current) = current :=
  applyTokEdits_deltaEdits previous current

/-- **The analysed text is the document text, always.**  For every event sequence whatsoever (no
guard, positions valid or not, disk events at any time): whenever the server tracks the document,
the text the analysis database holds for it (`project.set_source_text`) is `Document.content` —
so every answer is computed from the text its positions are mapped through. -/
theorem c14_analysed_text (evs : List Impl.Event) (d : Impl.Doc) (h : Impl.run none evs = some d) :
    d.analysed = d.text :=
  run_analysed evs none (by intro d hd; cases hd) d h

/-- The same from any agreeing pair of states (so it composes along a session). -/
theorem c14_history_from (evs : List Impl.Event) (srv : Option Impl.Doc) (ed ed' : Option Spec.Doc)
    (hag : Agree srv ed)
    (hlf : Spec.lfHistory ed (evs.map encodeEvent) = true)
    (h : Spec.run ed (evs.map encodeEvent) = some ed') :
    Agree (Impl.run srv evs) ed' :=
  run_agree evs srv ed ed' hag hlf h

/-- `Agree` on UTF-16 units is equality of texts: the encoding is injective
(`decode16 ∘ encode16 = id`), so "encodes to the editor's buffer" means "is the editor's text". -/
theorem c14_encode16_injective (s : List Char) : decode16 (encode16 s) = s :=
  decode16_encode16 s

/-- **Round trip (clause "converting an offset to a position and back is the identity on character
boundaries, including lines containing non-ASCII and astral-plane characters").**  For every text
split `pre ++ post` — the byte offset `len8 pre` is exactly a character boundary — converting the
offset with `offset_to_line_col` and the result back with `position_to_offset` returns the offset.
No guard: holds for every text, `\r` included. -/
theorem c14_roundtrip (pre post : List Char) :
    Impl.positionToOffset (pre ++ post)
      (Impl.offsetToLineCol (pre ++ post) (len8 pre)).1
      (Impl.offsetToLineCol (pre ++ post) (len8 pre)).2 = some (len8 pre) := by
  have h := roundtrip_aux pre post 0 0 0
  simpa [Impl.positionToOffset, Impl.offsetToLineCol] using h

/-- The round trip in the words of the property statement: for every text `s` and every byte
offset `o` that is a character boundary of `s` (`str::is_char_boundary`). -/
theorem c14_roundtrip_boundary (s : List Char) (o : Nat) (h : Impl.isCharBoundary s o = true) :
    Impl.positionToOffset s (Impl.offsetToLineCol s o).1 (Impl.offsetToLineCol s o).2 = some o := by
  simp only [Impl.isCharBoundary] at h
  cases hp : Impl.takeBytes o s with
  | none => simp [hp] at h
  | some pre =>
    obtain ⟨post, h1, h2⟩ := takeBytes_some s o pre hp
    subst h1; subst h2
    exact c14_roundtrip pre post

/-- **Positions in answers refer to the editor's text (clause "every position-carrying answer …
refers to the editor's text", conversion part).**  For every text with `\n`/`\r\n` line ends and
every character boundary `len8 pre` that is not between the `\r` and `\n` of a line end, the
position `offset_to_line_col` produces is a position of the editor's buffer, it denotes — by the
editor's own reading in UTF-16 units — exactly the boundary after `pre`, and it does not split a
surrogate pair.  (This is the direction in which char- or byte-counted columns were wrong.) -/
theorem c14_emit (pre post : List Char)
    (hlf : Spec.lfOrCrlf (encode16 (pre ++ post)) = true)
    (hsplit : splitsCrlf pre post = false) :
    Spec.offsetOf (encode16 (pre ++ post))
      (Impl.offsetToLineCol (pre ++ post) (len8 pre)).1
      (Impl.offsetToLineCol (pre ++ post) (len8 pre)).2 = some (len16 pre) ∧
    Spec.onBoundary (encode16 (pre ++ post)) (len16 pre) = true := by
  obtain ⟨L, C, h1, h2⟩ := emit_aux pre post 0 0 0 hlf hsplit
  have h1' : Impl.offsetToLineCol (pre ++ post) (len8 pre) = (L, C) := by
    simp only [Impl.offsetToLineCol]
    rw [show len8 pre = 0 + len8 pre by omega, h1]
    by_cases h0 : L = 0 <;> simp [h0]
  rw [h1']
  exact ⟨h2, onBoundary_encode16 pre post⟩

/-- **No position can make the splice panic.**  For every text and every change list — including
positions no editor sends (beyond the line, beyond the document, inside a surrogate pair, reversed)
— `apply_content_changes` either accepts or rejects: the byte offsets `position_to_offset` returns
are always character boundaries within the text, so `&updated[..start]` / `&updated[end..]` never
panic and the document is never lost to a crashed handler.  No hypothesis. -/
theorem c14_no_panic (s : List Char) (cs : List Impl.Change) :
    Impl.applyContentChanges s cs ≠ .panic :=
  applyContentChanges_no_panic cs s

/-- **The guard is necessary (known finding C14-lone-cr).**  A lone `\r` ends a line for the editor
(LSP 3.17) but not for the server: on `"a\rb"` the editor's insertion at line 1, column 0 is
rejected by `apply_content_changes` (line 1 does not exist), so the texts diverge. -/
theorem c14_counterexample_lone_cr :
    Impl.applyChange ['a', '\r', 'b'] (.range 1 0 1 0 ['X']) = .rejected ∧
    Spec.applyChange (encode16 ['a', '\r', 'b']) (.range 1 0 1 0 (encode16 ['X'])) =
      some (encode16 ['a', '\r', 'X', 'b']) ∧
    Spec.lfOrCrlf (encode16 ['a', '\r', 'b']) = false := by decide

/-- **A DELETED file event does not touch an open document** (the repaired defect
C14-deleted-event-drops-open-document, /repo 9240ec7): whatever the document, as long as the
editor has it open the server keeps it unchanged when its file is deleted on disk; a closed one
is forgotten.  This is the case of `c14_history` that used to need a guard. -/
theorem c14_deleted_keeps_open (d : Impl.Doc) :
    Impl.step (some d) .watchedDeleted = (if d.isOpen then some d else none) := by
  simp [Impl.step]

/-! ## Non-vacuity: the hypotheses are satisfiable on the interesting inputs -/

/-- `c14_apply` on the witness of the repaired defect: `😀x`, insert `y` at (0,2). -/
example :
    Spec.lfOrCrlf (encode16 ['😀', 'x']) = true ∧
    Spec.applyChange (encode16 ['😀', 'x']) (.range 0 2 0 2 (encode16 ['y'])) =
      some (encode16 ['😀', 'y', 'x']) ∧
    Impl.applyChange ['😀', 'x'] (.range 0 2 0 2 ['y']) = .ok ['😀', 'y', 'x'] := by decide

/-- `c14_roundtrip_boundary`: offsets 0, 4 (after `😀`), 6 (after `é`) and 7 are boundaries of
`"😀éx"`, offsets 1–3 and 5 are not. -/
example :
    [0, 1, 2, 3, 4, 5, 6, 7, 8].map (Impl.isCharBoundary ['😀', 'é', 'x']) =
      [true, false, false, false, true, false, true, true, false] := by decide

/-- `c14_emit` behind an astral character on a CRLF line: the server says (1, 3) for the offset of
`x` in `"a\r\n😀éx"`, and that is where the editor finds it. -/
example :
    let pre := ['a', '\r', '\n', '😀', 'é']
    let post := ['x']
    Spec.lfOrCrlf (encode16 (pre ++ post)) = true ∧ splitsCrlf pre post = false ∧
    Impl.offsetToLineCol (pre ++ post) (len8 pre) = (1, 3) ∧ len8 pre = 9 ∧ len16 pre = 6 := by decide

/-- `c14_changes` / `c14_history` on a CRLF document with an astral character and a two-change
notification that crosses a line end. -/
example :
    let evs : List Impl.Event :=
      [.didOpen 1 ['a', '😀', '\r', '\n', 'b'],
       .didChange 2 [.range 0 3 1 0 ['é'], .range 0 4 0 5 []],
       .didClose]
    Spec.lfHistory none (evs.map encodeEvent) = true ∧
    Spec.run none (evs.map encodeEvent) = some none ∧
    Impl.run none evs =
      some { text := ['a', '😀', 'é'], version := 2, isOpen := false, analysed := ['a', '😀', 'é'] } := by
  decide

/-- The witness of the repaired defect: open, the file is deleted on disk, the editor keeps
editing — the history is an editor history without any guard on the DELETED event, and the server
follows. -/
example :
    let evs : List Impl.Event :=
      [.didOpen 1 ['x'], .watchedDeleted, .didChange 2 [.range 0 1 0 1 ['y']]]
    Spec.lfHistory none (evs.map encodeEvent) = true ∧
    Spec.run none (evs.map encodeEvent) = some (some { units := encode16 ['x', 'y'], version := 2 }) ∧
    Impl.run none evs =
      some { text := ['x', 'y'], version := 2, isOpen := true, analysed := ['x', 'y'] } := by decide

/-- `c14_token_delta` where prefix and suffix would overlap: one of three identical tokens is
deleted; the edit deletes exactly one token. -/
example :
    Impl.deltaEdits [7, 1, 1, 1, 9] [7, 1, 1, 9] = [{ start := 3, deleteCount := 1, data := [] }] ∧
    Impl.deltaEdits [7, 1, 1, 9] [7, 1, 1, 1, 9] = [{ start := 3, deleteCount := 0, data := [1] }] := by
  decide

/-- `c14_workspace_history`: an open dirty buffer (URI 0) is renamed to URI 1, the watcher reports
DELETED for the old path and CREATED (with the stale disk text) for the new one, the editor keeps
editing under the new URI; then the file is renamed back onto a path the server tracks as a closed
document. -/
example :
    let evs : List Impl.WEvent :=
      [.doc 0 (.watchedChanged (some ['o', 'l', 'd'])),
       .doc 0 (.didOpen 1 ['o', 'l', 'd']),
       .doc 0 (.didChange 2 [.range 0 0 0 3 ['n', 'e', 'w']]),
       .renamed 0 1 (some ['o', 'l', 'd']),
       .doc 0 .watchedDeleted,
       .doc 1 (.watchedChanged (some ['o', 'l', 'd'])),
       .doc 1 (.didChange 3 [.range 0 3 0 3 ['!']]),
       .doc 0 (.watchedChanged (some ['x'])),
       .renamed 1 0 (some ['o', 'l', 'd'])]
    Spec.lfWHistory (fun _ => none) (evs.map encodeWEvent) = true ∧
    (Spec.wrun (fun _ => none) (evs.map encodeWEvent)).map (fun st => (st 0, st 1)) =
      some (some { units := encode16 ['n', 'e', 'w', '!'], version := 3 }, none) ∧
    Impl.wrun (fun _ => none) evs 0 =
      some { text := ['n', 'e', 'w', '!'], version := 3, isOpen := true, analysed := ['n', 'e', 'w', '!'] } ∧
    Impl.wrun (fun _ => none) evs 1 = none := by decide

/-- `c14_history` over the extended alphabet: the file is indexed, opened, edited (unsaved),
rewritten on disk behind the editor's back (CHANGED), saved, closed, rewritten again (the closed
document takes the disk text), deleted, re-created and re-opened. -/
example :
    let evs : List Impl.Event :=
      [.watchedChanged (some ['o', 'l', 'd']),
       .didOpen 1 ['o', 'l', 'd'],
       .didChange 2 [.range 0 0 0 3 ['n', 'e', 'w']],
       .watchedChanged (some ['d', 'i', 's', 'k']),
       .didSave,
       .watchedChanged (some ['n', 'e', 'w'])]
    Spec.lfHistory none (evs.map encodeEvent) = true ∧
    Spec.run none (evs.map encodeEvent) = some (some { units := encode16 ['n', 'e', 'w'], version := 2 }) ∧
    Impl.run none evs =
      some { text := ['n', 'e', 'w'], version := 2, isOpen := true, analysed := ['n', 'e', 'w'] } ∧
    Impl.run none (evs ++ [.didClose, .watchedChanged (some ['x']), .watchedChanged none]) =
      some { text := ['x'], version := 0, isOpen := false, analysed := ['x'] } ∧
    Spec.lfHistory none ((evs ++ ([.didClose, .watchedDeleted, .watchedChanged (some ['y']),
      .didOpen 7 ['z']] : List Impl.Event)).map encodeEvent) = true ∧
    Impl.run none (evs ++ [.didClose, .watchedDeleted, .watchedChanged (some ['y']), .didOpen 7 ['z']]) =
      some { text := ['z'], version := 7, isOpen := true, analysed := ['z'] } := by decide

/-- **Token sessions: whatever the editor drops, what it ends up holding is current (clause "every
position-carrying answer (… tokens …) refers to the editor's text", for the
`semanticTokens/full` + `full/delta` protocol as a whole).**  For every session — full and delta
requests in any order, the token array of the document arbitrary at each request (the text
changes in between), every answer either consumed or DROPPED by the editor (a request cancelled by
the next key stroke, the request of another view: the server has cached the result all the same),
the server forgetting the entry (`remove_document`, `rename_document`), requests for other
documents moving the id counter — after every answer the editor consumes it holds exactly the
token array of the document at that request.  Rests on the server answering edits only when the
cached result id IS the id the request names (`Impl.tokDelta`; ids come from a counter, so an id
names one answer): `c14_token_delta_needs_same_base` shows edits against any other base are
wrong.  Induction over the session, no bound. -/
theorem c14_token_session {α : Type} [DecidableEq α] (evs : List (TokEv α)) (cur : List α)
    (e : TokEv α) (he : e = .full cur true ∨ e = .delta cur true) (st' : TokState α)
    (h : tokRun tokInit (evs ++ [e]) = some st') : ∃ id, st'.held = some (id, cur) := by
  obtain ⟨st1, h1, h2⟩ := tokRun_append evs [e] tokInit st' h
  have hinv := tokRun_inv evs tokInit st1 tokInv_init h1
  simp only [tokRun] at h2
  cases hs : tokStep st1 e with
  | none => simp [hs] at h2
  | some st2 =>
    simp only [hs, Option.some.injEq] at h2
    subst h2
    exact tokStep_consumed st1 st2 cur e he hinv hs

/-- Edits computed against the server's NEWEST result are wrong for an editor that holds an older
one (it dropped the answer in between): the id comparison of `semantic_tokens_full_delta` is what
`c14_token_session` rests on. -/
theorem c14_token_delta_needs_same_base :
    Spec.applyTokEdits [1, 2] (Impl.deltaEdits [1, 3] [1, 3, 4]) ≠ [1, 3, 4] := by decide

/-- **The analysed text of a URI is the text of that URI's document — for every key function that
gives no two URIs in use the same source key** (general form; `c14_keyed_analysed` discharges the
guard for the server's `source_key_for_uri`).  The project stores sources under
`source_key_for_uri(uri)`, the documents are stored under the URI.  If the key function is
injective, then after every workspace history whatsoever the database entry of each URI's key is
exactly the `analysed` field the per-URI model (`Impl.wstep`, the model of
`c14_workspace_history`) carries for that URI, and the documents are those of the per-URI model —
so `c14_workspace_history` speaks about what the analysis really reads. -/
theorem c14_keyed_analysed_partial (key : Nat → Nat) (hk : ∀ a b, key a = key b → a = b)
    (evs : List Impl.WEvent) :
    (Impl.krun key Impl.kInit evs).docs = Impl.wrun (fun _ => none) evs ∧
    ∀ u, (Impl.krun key Impl.kInit evs).db (key u) =
      ((Impl.krun key Impl.kInit evs).docs u).map (·.analysed) :=
  ⟨krun_docs key evs Impl.kInit, krun_inv key hk evs Impl.kInit (fun _ => rfl)⟩

/-- **`source_key_for_uri` gives different URIs different keys** (the repaired defect
C14-uri-scheme-shares-path-key): a plain `file:` URI is keyed by its path, every other URI — another
scheme, a query, a fragment — by the whole URI, and the two kinds of key are different
constructors. -/
theorem c14_source_key_injective (a b : Impl.Uri) (h : Impl.sourceKey a = Impl.sourceKey b) :
    a = b :=
  sourceKey_injective a b h

/-- **The analysed text of a URI is the text of that URI's document (no guard left).**  For every
numbering of distinct URIs (`uri` injective) and every numbering of source keys (`code` injective)
the key function `code ∘ source_key_for_uri ∘ uri` satisfies the guard of
`c14_keyed_analysed_partial`: after every workspace history the analysis reads, for every URI,
the `analysed` text of that URI's own document. -/
theorem c14_keyed_analysed (uri : Nat → Impl.Uri) (code : Impl.SourceKey → Nat)
    (huri : ∀ a b, uri a = uri b → a = b) (hcode : ∀ a b, code a = code b → a = b)
    (evs : List Impl.WEvent) :
    let key := fun u => code (Impl.sourceKey (uri u))
    (Impl.krun key Impl.kInit evs).docs = Impl.wrun (fun _ => none) evs ∧
    ∀ u, (Impl.krun key Impl.kInit evs).db (key u) =
      ((Impl.krun key Impl.kInit evs).docs u).map (·.analysed) :=
  c14_keyed_analysed_partial _
    (fun a b h => huri a b (sourceKey_injective _ _ (hcode _ _ h))) evs

/-- **Why the key function must be injective, and what the defect was.**  With one key for two
URIs, after both are opened each document holds its own text but the analysis reads the second
text for both; and the key function before the repair (`sourceKeyOld`: the path alone) did give
`file:///w/main.st` and `git:/w/main.st?ref=HEAD` one key, which the repaired one does not. -/
theorem c14_counterexample_shared_key :
    (let st := Impl.krun (fun _ => 0) Impl.kInit
      [.doc 0 (.didOpen 1 ['a']), .doc 1 (.didOpen 1 ['b'])]
    (st.docs 0).map (·.text) = some ['a'] ∧ (st.docs 1).map (·.text) = some ['b'] ∧
    st.db 0 = some ['b']) ∧
    (let f : Impl.Uri := { scheme := "file", path := "/w/main.st", query := none, fragment := none }
     let g : Impl.Uri := { scheme := "git", path := "/w/main.st", query := some "ref=HEAD", fragment := none }
     Impl.sourceKeyOld f = Impl.sourceKeyOld g ∧ Impl.sourceKey f ≠ Impl.sourceKey g) := by decide

/-- Non-vacuity of `c14_token_session`: the editor takes a full answer, drops a delta answer (the
server's newest result is now one the editor never saw), asks again naming the OLD id while the
tokens have changed again — the server answers the full array and the editor holds the current
tokens. -/
example :
    let evs : List (TokEv Nat) := [.full [1, 2] true, .delta [1, 3] false, .delta [1, 3, 4] true]
    (tokRun tokInit evs).map (·.held) = some (some (2, [1, 3, 4])) ∧
    (Impl.tokDelta (α := Nat) { nextId := 2, cache := some (1, [1, 3]) } 0 [1, 3, 4]).2 =
      .full 2 [1, 3, 4] ∧
    (Impl.tokDelta (α := Nat) { nextId := 1, cache := some (0, [1, 2]) } 0 [1, 3]).2 =
      .delta 1 [{ start := 1, deleteCount := 1, data := [3] }] := by decide

/-- Non-vacuity of `c14_keyed_analysed_partial`: with private keys the same two documents are
analysed from their own texts. -/
example :
    let st := Impl.krun id Impl.kInit [.doc 0 (.didOpen 1 ['a']), .doc 1 (.didOpen 1 ['b'])]
    st.db 0 = some ['a'] ∧ st.db 1 = some ['b'] := by decide

end TrustVerif.C14
