import TrustVerif.Lemmas.C14

namespace TrustVerif.C14

/-- placeholder while the pipeline is wired -/
theorem c14_counterexample_lone_cr :
    Impl.applyChange ['a', '\r', 'b'] (.range 1 0 1 0 ['X']) = .rejected ∧
    Spec.applyChange (encode16 ['a', '\r', 'b']) (.range 1 0 1 0 (encode16 ['X'])) =
      some (encode16 ['a', '\r', 'X', 'b']) := by decide

end TrustVerif.C14
