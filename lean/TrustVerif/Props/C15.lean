import TrustVerif.Lemmas.C15

/-
C15 — formatting never changes the program and is idempotent.

The statement has four clauses: (1) tokens(format s) = tokens s (comments, pragmas, strings included),
(2) format (format s) = format s, (3) range / on-type edits only re-lay-out the lines they cover,
(4) the same for the web IDE formatter.  The code violates every clause somewhere; each theorem below
says exactly what is proved of the code as it is (`_partial` = under an explicit decidable guard) and
each `_counterexample` exhibits a concrete input on which the model — and, replayed by the harness, the
real implementation — violates the full clause.
-/
namespace TrustVerif.C15
open TrustVerif.C15.Gen

/-! ## Clause 1, the glue rule (table generated from `should_glue`) -/

/-- The whole table, decided by the kernel over all 46 × 46 class pairs and both styles. -/
theorem c15_glue_table :
    ∀ a ∈ Cls.all, ∀ b ∈ Cls.all, ∀ st ∈ [Style.spaced, Style.compact],
      (gluedUnsafe a b st && !excludedKind a.kind && !excludedKind b.kind) = true →
        knownHazard a b st = true := by
  decide +kernel

/-- Clause 1 (glue), partial: whenever `should_glue` writes two tokens without a separator, the pair is
class-safe (re-lexes as the same two tokens), unless it is one of the recorded hazards
(`hazardsAlways`, `hazardsCompact`; known finding C15-glue-hazards). -/
theorem c15_glue_safe_partial (a b : Cls) (st : Style)
    (ha : excludedKind a.kind = false) (hb : excludedKind b.kind = false)
    (hg : shouldGlue a.kind b.kind st = true) (hk : knownHazard a b st = false) :
    classSafe a b = true := by
  have hst : st ∈ [Style.spaced, Style.compact] := by cases st <;> simp
  have h := c15_glue_table a (Cls.mem_all a) b (Cls.mem_all b) st hst
  cases hc : classSafe a b with
  | true => rfl
  | false =>
    have : knownHazard a b st = true := h (by simp [gluedUnsafe, hg, hc, ha, hb])
    rw [hk] at this
    exact absurd this (by simp)

/-- non-vacuity of `c15_glue_safe_partial`: `foo(` -/
example : classSafe (.k .Ident) (.k .LParen) = true :=
  c15_glue_safe_partial (.k .Ident) (.k .LParen) .spaced (by decide) (by decide) (by decide) (by decide)

/-- Clause 1 is FALSE of the code: `( *` is written `(*`, the start of a block comment. -/
theorem c15_glue_counterexample_comment :
    shouldGlue .LParen .Star .spaced = true ∧ classSafe (.k .LParen) (.k .Star) = false := by decide

/-- Clause 1 is false on VALID programs: a typed literal after a keyword (`x MOD INT#5`) is glued to the
keyword (`MODINT#5`), in both spacing styles. -/
theorem c15_glue_counterexample_typed_literal :
    ∀ st, shouldGlue .Kw .TypedLiteralPrefix st = true ∧ classSafe (.k .Kw) (.k .TypedLiteralPrefix) = false := by
  intro st; cases st <;> decide

/-- Compact style: `/ /` becomes `//` (a line comment), `: =` becomes `:=`. -/
theorem c15_glue_counterexample_compact :
    gluedUnsafe (.k .Slash) (.k .Slash) .compact = true ∧ gluedUnsafe (.k .Colon) (.k .Eq) .compact = true := by
  decide

/-- The unguarded statement fails. -/
theorem c15_glue_safe_counterexample :
    ¬ ∀ (a b : Cls) (st : Style), excludedKind a.kind = false → excludedKind b.kind = false →
        shouldGlue a.kind b.kind st = true → classSafe a b = true := by
  intro h
  have := h (.k .LParen) (.k .Star) .spaced (by decide) (by decide) (by decide)
  exact absurd this (by decide)

/-! ## Clause 1, one line re-emitted by `format_line_tokens` -/

/-- Clause 1 for one code line (no comment, no pragma): the text `format_line_tokens` emits lexes to the
tokens it was made from, keywords re-cased as configured and nothing else changed — for EVERY token list
without a recorded glue hazard, every spacing style and every keyword case.  Relative to the abstract
lexer interface `L` (validated against `trust_syntax::lex` on every run). -/
theorem c15_line_tokens (L : LexIface) (ts : List Tok) (kc : KwCase) (st : Style)
    (hv : ∀ t ∈ ts, L.valid t) (hh : lineHazards st ts = []) :
    L.lex (formatLineTokens ts kc st) = ts.map (recaseTok kc) := by
  have h := formatLineTokensFrom_eq_render kc st none ts
  simp only [Option.map_none] at h
  unfold formatLineTokens
  rw [h]
  apply L.locality
  · intro t ht
    obtain ⟨u, hu, rfl⟩ := List.mem_map.mp ht
    exact L.valid_recase kc u (hv u hu)
  · exact adjAll_of_no_hazards L kc st ts hv hh

/-- non-vacuity of the token hypotheses of `c15_line_tokens`: `x:=1 ;` has no glue hazard in either style and is
re-emitted as `x := 1;` / `x:=1;` (the interface `L` itself is an assumption about the real lexer, validated
by the harness; it is satisfiable, e.g. by the lexer that accepts no token) -/
example :
    let ts := [tk "Ident" .Ident "x", tk "Assign" .Assign ":=", tk "IntLiteral" .IntLiteral "1",
               tk "Semicolon" .Semicolon ";"]
    lineHazards .spaced ts = [] ∧ lineHazards .compact ts = [] ∧
    formatLineTokens ts .preserve .spaced = txt "x := 1;" ∧ formatLineTokens ts .preserve .compact = txt "x:=1;" := by
  decide

example : LexIface :=
  { lex := fun _ => [], valid := fun _ => False, valid_kw := fun _ h => h.elim, valid_recase := fun _ _ h => h.elim,
    locality := fun _ ts hv _ => by
      cases ts with
      | nil => rfl
      | cons t _ => exact (hv t (by simp)).elim }

/-- "keywords compared case-insensitively": re-casing keeps variant and class, touches only keyword
tokens, and replaces their text by its ASCII upper- or lower-case form. -/
theorem c15_recase (kc : KwCase) (t : Tok) :
    (recaseTok kc t).name = t.name ∧ (recaseTok kc t).kind = t.kind ∧
    (t.isKw = false → (recaseTok kc t).text = t.text) ∧
    ((recaseTok kc t).text = t.text ∨ (recaseTok kc t).text = upperText t.text ∨
      (recaseTok kc t).text = lowerText t.text) := by
  unfold recaseTok recase
  cases kc <;> cases t.isKw <;> simp

/-! ## Clause 1, comments and pragmas: verbatim lines -/

/-- A line inside a block comment is emitted unchanged (only a trailing CR is normalised). -/
theorem c15_verbatim_block (cfg : Config) (st : St) (l : LineIn) (h : l.inBlockComment = true) :
    ∃ o st', stepLine cfg st l = some (o, st') ∧ o.text = l.text ∧ o.verbatim = true := by
  unfold stepLine
  simp [h, skipAlignOf, OutLine.verbatim]

/-- A line that carries a line comment or a pragma is emitted as indentation followed by the trimmed
source line: nothing between its first and last non-blank character is touched, and the alignment and
wrapping passes skip it. -/
theorem c15_verbatim_line (cfg : Config) (st : St) (l : LineIn) (o : OutLine) (st' : St)
    (hb : l.inBlockComment = false) (hv : (l.hasLineComment || l.hasPragma) = true)
    (h : stepLine cfg st l = some (o, st')) :
    o.skipAlign = true ∧ o.colon = none ∧
      ((o.text = [] ∧ trim l.text = []) ∨ ∃ n, o.text = repeatText (indentUnit cfg) n ++ trim l.text) := by
  unfold stepLine at h
  simp only [hb, Bool.false_eq_true, if_false] at h
  have hsk : skipAlignOf l = true := by
    unfold skipAlignOf
    rcases Bool.or_eq_true _ _ |>.mp hv with h1 | h1 <;> simp [h1]
  split at h
  · rename_i he
    simp only [Option.some.injEq, Prod.mk.injEq] at h
    obtain ⟨rfl, _⟩ := h
    exact ⟨hsk, rfl, Or.inl ⟨rfl, by simpa using he⟩⟩
  · split at h
    · exact absurd h (by simp)
    · simp only [Option.some.injEq, Prod.mk.injEq] at h
      obtain ⟨rfl, _⟩ := h
      unfold emitLine
      simp only [hv, if_true]
      exact ⟨hsk, by simp, Or.inr ⟨_, rfl⟩⟩

/-- non-vacuity of `c15_verbatim_line`: `  x:=1;  // c  ` at indent level 1 -/
example :
    (stepLine cfgDefault { indent := 1, inVar := false }
      { lineOf "  x:=1;  // c  " [tk "Ident" .Ident "x", tk "Assign" .Assign ":=", tk "IntLiteral" .IntLiteral "1",
                                   tk "Semicolon" .Semicolon ";"] with hasLineComment := true }).map (·.1.text) =
      some (txt "    x:=1;  // c") := by decide

/-- The wrapping pass returns a skipped line as it is. -/
theorem c15_verbatim_wrap (unit : Text) (m : Nat) (o : OutLine) (h : o.skipAlign = true) :
    wrapLine unit m o = [o.text] := by
  unfold wrapLine
  rw [h]
  split <;> rfl

/-- Clause 1 for comments and pragmas at document level: every line the per-line pass marked verbatim
(`c15_verbatim_block`, `c15_verbatim_line`: block-comment lines, lines with a line comment or a pragma) is
in the final output with exactly the text the per-line pass gave it, in the same order — the colon
alignment, the assignment alignment and the wrapping pass (whatever the configuration) never touch,
split, drop or reorder these lines. -/
theorem c15_verbatim_document (cfg : Config) (ls : List OutLine) :
    ((ls.filter (·.verbatim)).map (·.text)).Sublist (finalLines cfg ls) := by
  have hrel := rel_alignedLines cfg ls
  rw [hrel.filter_verbatim]
  unfold finalLines
  split
  · rename_i m _
    unfold wrapLongLines
    apply sublist_filter_flatMap
    intro x hx
    have hs : x.skipAlign = true := by
      unfold OutLine.verbatim at hx
      simp only [Bool.and_eq_true] at hx
      exact hx.1
    exact c15_verbatim_wrap _ _ x hs
  · exact (List.filter_sublist).map _

/-- non-vacuity: a comment line between two assignments that get aligned (wrapping switched on) -/
example :
    finalLines { cfgDefault with maxLen := some 10 }
      [ { text := txt "x := 1;", inVar := false, skipAlign := false },
        { text := txt "// a, b, c, d, e", inVar := false, skipAlign := true },
        { text := txt "long_name := f(a, b);", inVar := false, skipAlign := false } ] =
      [txt "x := 1;", txt "// a, b, c, d, e", txt "long_name := f(a,", txt "    b);"] := by decide

/-! ## Clause 4, the web IDE formatter -/

/-- Line structure: the web formatter emits, for every source line, either an empty line (the line was
blank) or spaces followed by the line without its leading white space and trailing blanks — nothing else
of a line changes. -/
theorem c15_web_lines (lvl : Nat) (raws : List Text) :
    (webLines lvl raws).length = raws.length ∧
    ∀ p ∈ raws.zip (webLines lvl raws),
      (p.2 = [] ∧ webCore p.1 = []) ∨ ∃ n, p.2 = spaces n ++ webCore p.1 := by
  induction raws generalizing lvl with
  | nil => simp [webLines]
  | cons r rest ih =>
    simp only [webLines, List.length_cons, List.zip_cons_cons, List.mem_cons]
    refine ⟨by rw [(ih _).1], ?_⟩
    intro p hp
    rcases hp with hp | hp
    · subst hp
      show ((webStep lvl r).1 = [] ∧ webCore r = []) ∨ ∃ n, (webStep lvl r).1 = spaces n ++ webCore r
      unfold webStep
      rcases webStepCore_cases lvl (webCore r) with ⟨h1, h2⟩ | ⟨n, h1, _⟩
      · exact Or.inl ⟨h1, h2⟩
      · exact Or.inr ⟨n, h1⟩
    · exact (ih _).2 p hp

/-- The web formatter changes white space only: the text without white space is preserved, for every
source text. -/
theorem c15_web_nonws (s : Text) : nonWs (webFormat s) = nonWs s := by
  rw [webFormat_eq]
  split
  · rename_i h
    rw [← nonWs_rustLines s, ← nonWs_webLines 0, ← nonWs_joinWith_nl, h]
  · rw [nonWs_append, nonWs_joinWith_nl, nonWs_webLines, nonWs_rustLines]
    have : nonWs ['\n'] = [] := by decide
    simp [this]

/-- Idempotence of the web formatter, partial: for every text in which no kept line ends in a
carriage return (`noStrayCR`, i.e. no `CR CR LF` and no final line ending in CR). -/
theorem c15_web_idempotent_partial (s : Text) (h : noStrayCR s = true) :
    webFormat (webFormat s) = webFormat s := by
  have hs := webFormat_eq s
  by_cases hf : joinWith ['\n'] (webLines 0 (rustLines s)) = []
  · rw [hs]; simp only [hf, if_true]; decide
  · have hne : webLines 0 (rustLines s) ≠ [] := by
      intro e; apply hf; rw [e]; rfl
    have hnonl := webLines_no_nl 0 (rustLines s) (rustLines_no_nl s)
    have hcr : ∀ o ∈ webLines 0 (rustLines s), o.getLast? ≠ some '\r' := by
      apply webLines_last_ne_cr
      intro r hr
      unfold noStrayCR at h
      have := List.all_eq_true.mp h r hr
      simpa using this
    have hlines : ∀ outs : List Text, outs ≠ [] → (∀ o ∈ outs, '\n' ∉ o) →
        (∀ o ∈ outs, o.getLast? ≠ some '\r') → rustLines (joinWith ['\n'] outs ++ ['\n']) = outs := by
      intro outs hne hnonl hcr
      unfold rustLines
      rw [splitOn_joinWith_append '\n' _ [] hne hnonl]
      have : splitOn '\n' [] = [[]] := rfl
      rw [this, rustLines_go_append_nil]
      have : ∀ o ∈ outs, stripCR o = o := fun o ho => stripCR_eq_self o (hcr o ho)
      rw [List.map_congr_left this, List.map_id']
    have hlines := hlines _ hne hnonl hcr
    rw [hs]
    simp only [hf, if_false]
    rw [webFormat_eq, hlines, webLines_idem]
    simp [hf]

/-- non-vacuity: an indented program satisfies the guard and is changed by the formatter -/
example : noStrayCR (txt "IF a THEN\r\nx;\nEND_IF") = true ∧
    webFormat (txt "IF a THEN\r\nx;\nEND_IF") = txt "IF a THEN\n  x;\nEND_IF\n" := by decide

/-- Idempotence of the web formatter is FALSE in general: `"a\r\r\n"` (known finding C15-web-stray-cr). -/
theorem c15_web_idempotent_counterexample :
    webFormat (webFormat (txt "a\r\r\n")) ≠ webFormat (txt "a\r\r\n") := by decide

/-- Clause 4 ("same comments") is FALSE of the web formatter: the interior lines of a multi-line block
comment are trimmed and re-indented (known finding C15-web-multiline-trivia). -/
theorem c15_web_comment_counterexample :
    webFormat (txt "(* a\n     b *)\n") = txt "(* a\nb *)\n" := by decide

/-! ## Robustness: the per-line loop never panics in the aligned style, and does in the indented style -/

/-- With `endKeywordStyle = aligned` (the default) `format_document` never reaches the negative
`current_indent` that makes `indent_unit.repeat(current_indent as usize)` panic: for every list of
lines, from every state with a non-negative indent. -/
theorem c15_no_panic_aligned (cfg : Config) (hc : cfg.endStyle = .aligned) (ls : List LineIn) (st : St)
    (hi : 0 ≤ st.indent) : (runLines cfg st ls).isSome = true := by
  induction ls generalizing st with
  | nil => simp [runLines]
  | cons l rest ih =>
    unfold runLines
    have hci := curIndent_aligned_nonneg cfg st.indent l.toks hc hi
    unfold stepLine
    by_cases hb : l.inBlockComment = true
    · simp only [hb, if_true]
      have := ih { st with inVar := nextInVar st.inVar l.toks } hi
      cases hr : runLines cfg { st with inVar := nextInVar st.inVar l.toks } rest with
      | none => rw [hr] at this; simp at this
      | some os => simp
    · simp only [hb, Bool.false_eq_true, if_false]
      by_cases he : (trim l.text).isEmpty = true
      · simp only [he, if_true]
        have := ih { st with inVar := nextInVar st.inVar l.toks } hi
        cases hr : runLines cfg { st with inVar := nextInVar st.inVar l.toks } rest with
        | none => rw [hr] at this; simp at this
        | some os => simp
      · simp only [he, Bool.false_eq_true, if_false]
        generalize curIndent cfg st.indent l.toks = ci at hci
        have hneg : ¬ ci.1 < 0 := by omega
        simp only [hneg, if_false]
        have hnext : 0 ≤ nextIndent ci.1 ci.2 l.toks := by
          unfold nextIndent
          rw [hci.2]
          simp only [Bool.false_eq_true, if_false]
          split <;> omega
        generalize hst2 : ({ indent := nextIndent ci.1 ci.2 l.toks, inVar := nextInVar st.inVar l.toks } : St) = st2
        have hi2 : 0 ≤ st2.indent := by rw [← hst2]; exact hnext
        have := ih st2 hi2
        cases hr : runLines cfg st2 rest with
        | none => rw [hr] at this; simp at this
        | some os => simp

/-- non-vacuity -/
example : (runLines cfgDefault {} [lineOf "END_IF" [tk "KwEndIf" .Kw "END_IF"], lineOf "x" [tk "Ident" .Ident "x"]]).isSome
    = true :=
  c15_no_panic_aligned _ rfl _ {} (by decide)

/-- "For every configuration … the formatted text …" is FALSE: with `endKeywordStyle = indented` an `END_`
keyword at indent level 0 drives `indent_level` to -1 and the next code line panics
(`END_IF` / `x`; in valid programs: `END_PROGRAM` after `REPEAT … UNTIL … END_REPEAT`, followed by another
POU).  Known finding C15-indent-underflow-panic; replayed: the LSP server process exits. -/
theorem c15_panic_counterexample :
    formatDocument { cfgDefault with endStyle := .indented }
      { lines := [lineOf "END_IF" [tk "KwEndIf" .Kw "END_IF"], lineOf "x" [tk "Ident" .Ident "x"]],
        crlf := false, endsNl := false } = none := by decide

/-! ## Clause 1: tokens that span several lines are not handled by the line loop -/

/-- A non-blank line that carries no token start and no mask (the interior of a multi-line pragma, of
an unterminated comment …) is emitted as pure indentation: its text is dropped.  Known finding
C15-multiline-pragma. -/
theorem c15_tokenless_line_dropped (cfg : Config) (st : St) (text : Text) (o : OutLine) (st' : St)
    (h : stepLine cfg st { text := text, toks := [], inBlockComment := false, hasLineComment := false,
                           hasPragma := false, hasString := false } = some (o, st')) :
    o.text = [] ∨ ∃ n, o.text = repeatText (indentUnit cfg) n := by
  unfold stepLine at h
  simp only [Bool.false_eq_true, if_false] at h
  split at h
  · simp only [Option.some.injEq, Prod.mk.injEq] at h
    obtain ⟨rfl, _⟩ := h
    exact Or.inl rfl
  · split at h
    · exact absurd h (by simp)
    · simp only [Option.some.injEq, Prod.mk.injEq] at h
      obtain ⟨rfl, _⟩ := h
      right
      refine ⟨(curIndent cfg st.indent []).1.toNat, ?_⟩
      simp [emitLine, formatLineTokens, formatLineTokensFrom]

/-- The concrete witness: `{attribute 'foo'` / `   bar := 1}` — the second line of the pragma is lost. -/
theorem c15_pragma_counterexample :
    formatDocument cfgDefault
      { lines := [{ lineOf "{attribute 'foo'" [] with hasPragma := true }, lineOf "   bar := 1}" []],
        crlf := false, endsNl := false } = some (txt "{attribute 'foo'\n") := by decide

/-! ## Clause 1: the alignment pass edits inside a literal -/

/-- `align_var_block_colons` pads at the first ':' of the line even when it is inside a string literal:
`'a:b',` on a continuation line of a VAR block becomes `'a    :b',`.  Known finding
C15-var-colon-in-literal. -/
theorem c15_var_colon_counterexample :
    (alignVarColons
      [ { text := txt "    arr: INT;", inVar := true, colon := some 7, skipAlign := false },
        { text := txt "    'a:b',", inVar := true, colon := findTypeColon (txt "    'a:b',"), skipAlign := true } ]).map
      (·.text) = [txt "    arr: INT;", txt "    'a :b',"] := by decide

/-! ## Clause 3: range and on-type edits -/

/-- The edit built by `format_lines_edit(source, formatted, a, b)` replaces exactly the source lines
`a..=b` by the formatted lines `a..=b` and leaves every other line alone — for every source, every
formatted text and every line range that does not include the last line (LF line ends).
So the edit re-lays-out only the lines it covers *provided formatted line i is the layout of source
line i*; that is the case as long as no line was wrapped (the wrapping pass is the only one that changes
the number of lines) and fails otherwise: `c15_range_edit_counterexample`. -/
theorem c15_range_edit (src formatted : Text) (a b : Nat) (e : Edit)
    (hcr : containsText src ['\r', '\n'] = false)
    (hfcr : ∀ l ∈ splitOn '\n' formatted, stripCR l = l)
    (hab : a ≤ b) (hb : b + 1 < (srcLines src).length)
    (he : formatLinesEdit src formatted a b = some e) :
    srcLines (applyLineEdit src e) =
      (srcLines src).take a ++ ((splitOn '\n' formatted).drop a).take (b + 1 - a) ++
        (srcLines src).drop (b + 1) := by
  have hmap : (splitOn '\n' formatted).map stripCR = splitOn '\n' formatted := by
    rw [List.map_congr_left hfcr, List.map_id']
  unfold formatLinesEdit at he
  simp only [hcr, hmap, newlineOf, Bool.false_eq_true, if_false] at he
  have h1 : ¬ a ≥ (srcLines src).length := by omega
  simp only [h1, if_false] at he
  split at he
  · exact absurd he (by simp)
  · rename_i hlen
    have hlen' : b < (splitOn '\n' formatted).length := by
      simp only [Bool.or_eq_true, decide_eq_true_eq, not_or] at hlen
      omega
    simp only [hb, if_true, Bool.true_or, decide_true, Option.some.injEq] at he
    subst he
    unfold applyLineEdit
    simp only [if_true]
    have hsl : ∀ x ∈ (srcLines src).take a, '\n' ∉ x := fun x hx =>
      splitOn_mem_no_sep '\n' src x (List.mem_of_mem_take hx)
    have hpk : ∀ x ∈ ((splitOn '\n' formatted).drop a).take (b + 1 - a), '\n' ∉ x := fun x hx =>
      splitOn_mem_no_sep '\n' formatted x (List.mem_of_mem_drop (List.mem_of_mem_take hx))
    have hpne : ((splitOn '\n' formatted).drop a).take (b + 1 - a) ≠ [] := by
      intro e
      have := congrArg List.length e
      simp only [List.length_take, List.length_drop, List.length_nil] at this
      omega
    have hdr : ∀ x ∈ (srcLines src).drop (b + 1), '\n' ∉ x := fun x hx =>
      splitOn_mem_no_sep '\n' src x (List.mem_of_mem_drop hx)
    have hdne : (srcLines src).drop (b + 1) ≠ [] := by
      intro e
      have := congrArg List.length e
      simp only [List.length_drop, List.length_nil] at this
      omega
    unfold srcLines at *
    rw [List.append_assoc, splitOn_flatMap_append _ _ hsl, List.append_assoc]
    simp only [List.singleton_append]
    rw [splitOn_joinWith_append '\n' _ _ hpne hpk, splitOn_joinWith '\n' _ hdne hdr]
    simp [List.append_assoc]

/-- non-vacuity of `c15_range_edit`: re-indenting the middle line of three -/
example : srcLines (applyLineEdit (txt "a\nb\nc") { sl := 1, sc := 0, el := 2, ec := 0, newText := txt "  b\n" }) =
    [txt "a", txt "  b", txt "c"] :=
  c15_range_edit (txt "a\nb\nc") (txt "a\n  b\nc") 1 1 _ (by decide) (by decide) (by decide) (by decide) (by decide)

/-- Clause 3 is FALSE of the code: after `wrap_long_lines` split line 0 into three, on-type formatting of
line 1 (`x := 1;`) returns the formatted line with index 1 — the second piece of line 0 — so applying the
edit deletes `x := 1;` and duplicates `bbbbbbbbb,`.  Known finding C15-wrap-range-index; replayed
through `textDocument/onTypeFormatting`. -/
theorem c15_range_edit_counterexample :
    onTypeFormat { cfgDefault with maxLen := some 20 } wrapSrc wrapDoc 1 =
      .edits [{ sl := 1, sc := 0, el := 2, ec := 0, newText := txt "    bbbbbbbbb,\n" }] ∧
    srcLines (applyLineEdit wrapSrc { sl := 1, sc := 0, el := 2, ec := 0, newText := txt "    bbbbbbbbb,\n" }) =
      [txt "foo(aaaaaaaa, bbbbbbbbb, ccccccccc);", txt "    bbbbbbbbb,", txt ""] := by
  decide +kernel

/-- Clause 2 (idempotence) is FALSE of the LSP formatter for the same text: the continuation indent of a
wrapped line is not reproduced by the second run.  Known finding C15-wrap-not-idempotent (the second
document is the first output, with the tokens the real lexer finds in it). -/
theorem c15_wrap_idempotent_counterexample :
    formatDocument { cfgDefault with maxLen := some 20 } wrapDoc =
      some (txt "foo(aaaaaaaa,\n    bbbbbbbbb,\n    ccccccccc);\nx := 1;\n") ∧
    formatDocument { cfgDefault with maxLen := some 20 }
      { lines := [
          lineOf "foo(aaaaaaaa," [tk "Ident" .Ident "foo", tk "LParen" .LParen "(", tk "Ident" .Ident "aaaaaaaa",
                                  tk "Comma" .Comma ","],
          lineOf "    bbbbbbbbb," [tk "Ident" .Ident "bbbbbbbbb", tk "Comma" .Comma ","],
          lineOf "    ccccccccc);" [tk "Ident" .Ident "ccccccccc", tk "RParen" .RParen ")",
                                    tk "Semicolon" .Semicolon ";"],
          lineOf "x := 1;" [tk "Ident" .Ident "x", tk "Assign" .Assign ":=", tk "IntLiteral" .IntLiteral "1",
                            tk "Semicolon" .Semicolon ";"],
          lineOf "" []],
        crlf := false, endsNl := true } =
      some (txt "foo(aaaaaaaa,\nbbbbbbbbb,\nccccccccc);\nx := 1;\n") := by
  decide +kernel

/-- `textDocument/formatting` answers with no edit when the text is already formatted, and otherwise with
exactly one edit that replaces the whole document (from 0:0 to the end position) by the formatted text. -/
theorem c15_full_edit (cfg : Config) (src : Text) (d : Doc) (es : List Edit)
    (h : fullFormat cfg src d = .edits es) :
    (es = [] ∧ formatDocument cfg d = some src) ∨
    ∃ f, formatDocument cfg d = some f ∧ f ≠ src ∧
      es = [{ sl := 0, sc := 0, el := (endPosition src).1, ec := (endPosition src).2, newText := f }] := by
  unfold fullFormat at h
  split at h
  · exact absurd h (by simp)
  · rename_i f hf
    split at h
    · rename_i heq
      left
      simp only [Reply.edits.injEq] at h
      exact ⟨h.symm, by rw [hf, heq]⟩
    · rename_i hne
      right
      simp only [Reply.edits.injEq] at h
      exact ⟨f, hf, hne, h.symm⟩

end TrustVerif.C15
