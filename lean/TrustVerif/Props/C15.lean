import TrustVerif.Lemmas.C15

/-
C15 — formatting never changes the program and is idempotent.

The statement has four clauses: (1) tokens(format s) = tokens s (comments, pragmas, strings included),
(2) format (format s) = format s, (3) range / on-type edits only re-lay-out the lines they cover,
(4) the same for the web IDE formatter.  The code violates every clause somewhere; each theorem below
says exactly what is proved of the code as it is (`_partial` = under an explicit decidable guard) and
each `_counterexample` exhibits a concrete input on which the model — and, replayed by the harness, the
real implementation — violates the full clause.
-/
namespace TrustVerif.C15
open TrustVerif.C15.Gen

/-! ## Clause 1, the glue rule (table generated from `should_glue`) -/

theorem Cls.mem_all (a : Cls) : a ∈ Cls.all := by
  cases a with
  | k x => cases x <;> decide
  | temporal => decide

/-- The whole table, decided by the kernel over all 46 × 46 class pairs and both styles. -/
theorem c15_glue_table :
    ∀ a ∈ Cls.all, ∀ b ∈ Cls.all, ∀ st ∈ [Style.spaced, Style.compact],
      (gluedUnsafe a b st && !excludedKind a.kind && !excludedKind b.kind) = true →
        knownHazard a b st = true := by
  decide +kernel

/-- Clause 1 (glue), partial: whenever `should_glue` writes two tokens without a separator, the pair is
class-safe (re-lexes as the same two tokens), unless it is one of the recorded hazards
(`hazardsAlways`, `hazardsCompact`; known finding C15-glue-hazards). -/
theorem c15_glue_safe_partial (a b : Cls) (st : Style)
    (ha : excludedKind a.kind = false) (hb : excludedKind b.kind = false)
    (hg : shouldGlue a.kind b.kind st = true) (hk : knownHazard a b st = false) :
    classSafe a b = true := by
  have hst : st ∈ [Style.spaced, Style.compact] := by cases st <;> simp
  have h := c15_glue_table a (Cls.mem_all a) b (Cls.mem_all b) st hst
  cases hc : classSafe a b with
  | true => rfl
  | false =>
    have : knownHazard a b st = true := h (by simp [gluedUnsafe, hg, hc, ha, hb])
    rw [hk] at this
    exact absurd this (by simp)

/-- non-vacuity of `c15_glue_safe_partial`: `foo(` -/
example : classSafe (.k .Ident) (.k .LParen) = true :=
  c15_glue_safe_partial (.k .Ident) (.k .LParen) .spaced (by decide) (by decide) (by decide) (by decide)

/-- Clause 1 is FALSE of the code: `( *` is written `(*`, the start of a block comment. -/
theorem c15_glue_counterexample_comment :
    shouldGlue .LParen .Star .spaced = true ∧ classSafe (.k .LParen) (.k .Star) = false := by decide

/-- Clause 1 is false on VALID programs: a typed literal after a keyword (`x MOD INT#5`) is glued to the
keyword (`MODINT#5`), in both spacing styles. -/
theorem c15_glue_counterexample_typed_literal :
    ∀ st, shouldGlue .Kw .TypedLiteralPrefix st = true ∧ classSafe (.k .Kw) (.k .TypedLiteralPrefix) = false := by
  intro st; cases st <;> decide

/-- Compact style: `/ /` becomes `//` (a line comment), `: =` becomes `:=`. -/
theorem c15_glue_counterexample_compact :
    gluedUnsafe (.k .Slash) (.k .Slash) .compact = true ∧ gluedUnsafe (.k .Colon) (.k .Eq) .compact = true := by
  decide

/-- The unguarded statement fails. -/
theorem c15_glue_safe_counterexample :
    ¬ ∀ (a b : Cls) (st : Style), excludedKind a.kind = false → excludedKind b.kind = false →
        shouldGlue a.kind b.kind st = true → classSafe a b = true := by
  intro h
  have := h (.k .LParen) (.k .Star) .spaced (by decide) (by decide) (by decide)
  exact absurd this (by decide)

/-! ## Clause 1, one line re-emitted by `format_line_tokens` -/

theorem formatLineTokensFrom_eq_render (kc : KwCase) (st : Style) (prev : Option Tok) (ts : List Tok) :
    formatLineTokensFrom kc st (prev.map (·.kind)) ts =
      renderFrom (fun a b => shouldGlue a.kind b.kind st) (prev.map (recaseTok kc)) (ts.map (recaseTok kc)) := by
  induction ts generalizing prev with
  | nil => simp [formatLineTokensFrom, renderFrom]
  | cons t rest ih =>
    have := ih (some t)
    simp only [Option.map_some] at this
    cases prev with
    | none => simp [formatLineTokensFrom, renderFrom, sepBefore, recaseTok, this]
    | some p => simp [formatLineTokensFrom, renderFrom, sepBefore, recaseTok, this]

theorem recaseTok_cls (L : LexIface) (kc : KwCase) (t : Tok) (hv : L.valid t) : (recaseTok kc t).cls = t.cls := by
  unfold recaseTok Tok.cls recase
  cases kc with
  | preserve => rfl
  | upper =>
    cases hk : t.isKw with
    | false => simp
    | true =>
      have := L.valid_kw t hv hk
      simp [classify, this]
  | lower =>
    cases hk : t.isKw with
    | false => simp
    | true =>
      have := L.valid_kw t hv hk
      simp [classify, this]

theorem adjAll_of_no_hazards (L : LexIface) (kc : KwCase) (st : Style) (ts : List Tok)
    (hv : ∀ t ∈ ts, L.valid t) (hh : lineHazards st ts = []) :
    AdjAll (fun a b => (fun (a b : Tok) => shouldGlue a.kind b.kind st) a b = true →
        classSafe a.cls b.cls = true) (ts.map (recaseTok kc)) := by
  induction ts with
  | nil => simp [AdjAll]
  | cons a rest ih =>
    cases rest with
    | nil => simp [AdjAll]
    | cons b r2 =>
      simp only [lineHazards, List.append_eq_nil_iff] at hh
      simp only [List.map_cons, AdjAll]
      refine ⟨?_, ?_⟩
      · intro hg
        rw [recaseTok_cls L kc a (hv a (by simp)), recaseTok_cls L kc b (hv b (by simp))]
        have hg' : shouldGlue a.kind b.kind st = true := by simpa [recaseTok] using hg
        cases hc : classSafe a.cls b.cls with
        | true => rfl
        | false =>
          have : gluedUnsafe a.cls b.cls st = true := by
            have ka : a.cls.kind = a.kind := by
              unfold Tok.cls classify; split <;> simp_all [Cls.kind]
            have kb : b.cls.kind = b.kind := by
              unfold Tok.cls classify; split <;> simp_all [Cls.kind]
            simp [gluedUnsafe, ka, kb, hg', hc]
          simp [this] at hh
      · have := ih (fun t ht => hv t (by simp [ht])) hh.2
        simpa [List.map_cons] using this

/-- Clause 1 for one code line (no comment, no pragma): the text `format_line_tokens` emits lexes to the
tokens it was made from, keywords re-cased as configured and nothing else changed — for EVERY token list
without a recorded glue hazard, every spacing style and every keyword case.  Relative to the abstract
lexer interface `L` (validated against `trust_syntax::lex` on every run). -/
theorem c15_line_tokens (L : LexIface) (ts : List Tok) (kc : KwCase) (st : Style)
    (hv : ∀ t ∈ ts, L.valid t) (hh : lineHazards st ts = []) :
    L.lex (formatLineTokens ts kc st) = ts.map (recaseTok kc) := by
  have h := formatLineTokensFrom_eq_render kc st none ts
  simp only [Option.map_none] at h
  unfold formatLineTokens
  rw [h]
  apply L.locality
  · intro t ht
    obtain ⟨u, hu, rfl⟩ := List.mem_map.mp ht
    exact L.valid_recase kc u (hv u hu)
  · exact adjAll_of_no_hazards L kc st ts hv hh

/-- "keywords compared case-insensitively": re-casing keeps variant and class, touches only keyword
tokens, and replaces their text by its ASCII upper- or lower-case form. -/
theorem c15_recase (kc : KwCase) (t : Tok) :
    (recaseTok kc t).name = t.name ∧ (recaseTok kc t).kind = t.kind ∧
    (t.isKw = false → (recaseTok kc t).text = t.text) ∧
    ((recaseTok kc t).text = t.text ∨ (recaseTok kc t).text = upperText t.text ∨
      (recaseTok kc t).text = lowerText t.text) := by
  unfold recaseTok recase
  cases kc <;> cases t.isKw <;> simp

/-! ## Clause 1, comments and pragmas: verbatim lines -/

/-- A line inside a block comment is emitted unchanged (only a trailing CR is normalised). -/
theorem c15_verbatim_block (cfg : Config) (st : St) (l : LineIn) (h : l.inBlockComment = true) :
    ∃ o st', stepLine cfg st l = some (o, st') ∧ o.text = l.text ∧ o.skipAlign = true := by
  unfold stepLine
  simp [h, skipAlignOf]

/-- A line that carries a line comment or a pragma is emitted as indentation followed by the trimmed
source line: nothing between its first and last non-blank character is touched, and the alignment and
wrapping passes skip it. -/
theorem c15_verbatim_line (cfg : Config) (st : St) (l : LineIn) (o : OutLine) (st' : St)
    (hb : l.inBlockComment = false) (hv : (l.hasLineComment || l.hasPragma) = true)
    (h : stepLine cfg st l = some (o, st')) :
    o.skipAlign = true ∧ o.colon = none ∧
      ((o.text = [] ∧ trim l.text = []) ∨ ∃ n, o.text = repeatText (indentUnit cfg) n ++ trim l.text) := by
  unfold stepLine at h
  simp only [hb, Bool.false_eq_true, if_false] at h
  have hsk : skipAlignOf l = true := by
    unfold skipAlignOf
    rcases Bool.or_eq_true _ _ |>.mp hv with h1 | h1 <;> simp [h1]
  split at h
  · rename_i he
    simp only [Option.some.injEq, Prod.mk.injEq] at h
    obtain ⟨rfl, _⟩ := h
    exact ⟨hsk, rfl, Or.inl ⟨rfl, by simpa using he⟩⟩
  · split at h
    · exact absurd h (by simp)
    · simp only [Option.some.injEq, Prod.mk.injEq] at h
      obtain ⟨rfl, _⟩ := h
      unfold emitLine
      simp only [hv, if_true]
      exact ⟨hsk, by simp, Or.inr ⟨_, rfl⟩⟩

/-- The wrapping pass returns a skipped line as it is. -/
theorem c15_verbatim_wrap (unit : Text) (m : Nat) (o : OutLine) (h : o.skipAlign = true) :
    wrapLine unit m o = [o.text] := by
  unfold wrapLine
  split <;> simp [h]

/-! ## Clause 4, the web IDE formatter -/

/-- Line structure: the web formatter emits, for every source line, either an empty line (the line was
blank) or spaces followed by the line without its leading white space and trailing blanks — nothing else
of a line changes. -/
theorem c15_web_lines (lvl : Nat) (raws : List Text) :
    (webLines lvl raws).length = raws.length ∧
    ∀ p ∈ raws.zip (webLines lvl raws),
      (p.2 = [] ∧ webCore p.1 = []) ∨ ∃ n, p.2 = spaces n ++ webCore p.1 := by
  induction raws generalizing lvl with
  | nil => simp [webLines]
  | cons r rest ih =>
    simp only [webLines, List.length_cons, List.zip_cons_cons, List.mem_cons]
    refine ⟨by rw [(ih _).1], ?_⟩
    intro p hp
    rcases hp with hp | hp
    · subst hp
      show ((webStep lvl r).1 = [] ∧ webCore r = []) ∨ ∃ n, (webStep lvl r).1 = spaces n ++ webCore r
      unfold webStep
      rcases webStepCore_cases lvl (webCore r) with ⟨h1, h2⟩ | ⟨n, h1, _⟩
      · exact Or.inl ⟨h1, h2⟩
      · exact Or.inr ⟨n, h1⟩
    · exact (ih _).2 p hp

/-- The web formatter changes white space only: the text without white space is preserved, for every
source text. -/
theorem c15_web_nonws (s : Text) : nonWs (webFormat s) = nonWs s := by
  rw [webFormat_eq]
  split
  · rename_i h
    rw [← nonWs_rustLines s, ← nonWs_webLines 0, ← nonWs_joinWith_nl, h]
  · rw [nonWs_append, nonWs_joinWith_nl, nonWs_webLines, nonWs_rustLines]
    have : nonWs ['\n'] = [] := by decide
    simp [this]

/-- Idempotence of the web formatter, partial: for every text in which no kept line ends in a
carriage return (`noStrayCR`, i.e. no `CR CR LF` and no final line ending in CR). -/
theorem c15_web_idempotent_partial (s : Text) (h : noStrayCR s = true) :
    webFormat (webFormat s) = webFormat s := by
  have hs := webFormat_eq s
  by_cases hf : joinWith ['\n'] (webLines 0 (rustLines s)) = []
  · rw [hs]; simp only [hf, if_true]; decide
  · have hne : webLines 0 (rustLines s) ≠ [] := by
      intro e; apply hf; rw [e]; rfl
    have hnonl := webLines_no_nl 0 (rustLines s) (rustLines_no_nl s)
    have hcr : ∀ o ∈ webLines 0 (rustLines s), o.getLast? ≠ some '\r' := by
      apply webLines_last_ne_cr
      intro r hr
      unfold noStrayCR at h
      have := List.all_eq_true.mp h r hr
      simpa using this
    have hlines : ∀ outs : List Text, outs ≠ [] → (∀ o ∈ outs, '\n' ∉ o) →
        (∀ o ∈ outs, o.getLast? ≠ some '\r') → rustLines (joinWith ['\n'] outs ++ ['\n']) = outs := by
      intro outs hne hnonl hcr
      unfold rustLines
      rw [splitOn_joinWith_append '\n' _ [] hne hnonl]
      have : splitOn '\n' [] = [[]] := rfl
      rw [this, rustLines_go_append_nil]
      have : ∀ o ∈ outs, stripCR o = o := fun o ho => stripCR_eq_self o (hcr o ho)
      rw [List.map_congr_left this, List.map_id']
    have hlines := hlines _ hne hnonl hcr
    rw [hs]
    simp only [hf, if_false]
    rw [webFormat_eq, hlines, webLines_idem]
    simp [hf]

/-- non-vacuity: an indented program satisfies the guard and is changed by the formatter -/
example : noStrayCR (txt "IF a THEN\r\nx;\nEND_IF") = true ∧
    webFormat (txt "IF a THEN\r\nx;\nEND_IF") = txt "IF a THEN\n  x;\nEND_IF\n" := by decide

/-- Idempotence of the web formatter is FALSE in general: `"a\r\r\n"` (known finding C15-web-stray-cr). -/
theorem c15_web_idempotent_counterexample :
    webFormat (webFormat (txt "a\r\r\n")) ≠ webFormat (txt "a\r\r\n") := by decide

/-- Clause 4 ("same comments") is FALSE of the web formatter: the interior lines of a multi-line block
comment are trimmed and re-indented (known finding C15-web-multiline-trivia). -/
theorem c15_web_comment_counterexample :
    webFormat (txt "(* a\n     b *)\n") = txt "(* a\nb *)\n" := by decide

end TrustVerif.C15
