import TrustVerif.Lemmas.C15

/-
C15 — formatting never changes the program and is idempotent.

The statement has four clauses: (1) tokens(format s) = tokens s (comments, pragmas, strings included),
(2) format (format s) = format s, (3) range / on-type edits only re-lay-out the lines they cover,
(4) the same for the web IDE formatter.  After the fixes 0cc0118, 2b1ad0b, 997b5b5, b483235, 26b5189, 944815f,
6232ed3, PENDING-C15-align-assign the model follows the repaired code, and the theorems that were `_partial` with a counterexample
are stated in full: `c15_line_tokens` (re-lex guard), `c15_no_panic`, `c15_range_line_count`,
`c15_colon_guard`, `c15_web_idempotent`.  What the code still violates keeps its proved counterexample
(`c15_wrap_idempotent_counterexample`, `c15_web_comment_counterexample`) and an open known finding.
-/
namespace TrustVerif.C15
open TrustVerif.C15.Gen

/-! ## Clause 1, the glue rule (table generated from `should_glue`) -/

/-- The whole table, decided by the kernel over all 46 × 46 class pairs and both styles. -/
theorem c15_glue_table :
    ∀ a ∈ Cls.all, ∀ b ∈ Cls.all, ∀ st ∈ [Style.spaced, Style.compact],
      (gluedUnsafe a b st && !excludedKind a.kind && !excludedKind b.kind) = true →
        knownHazard a b st = true := by
  decide +kernel

/-- Clause 1 (glue): whenever `should_glue` writes two tokens without a separator, the pair is class-safe
(re-lexes as the same two tokens), unless it is one of the 34 recorded pairs (`hazardsAlways`,
`hazardsCompact`) — on those the re-lex guard of `format_line_tokens` takes the one-space fallback
(`c15_line_tokens`). -/
theorem c15_glue_safe (a b : Cls) (st : Style)
    (ha : excludedKind a.kind = false) (hb : excludedKind b.kind = false)
    (hg : shouldGlue a.kind b.kind st = true) (hk : knownHazard a b st = false) :
    classSafe a b = true := by
  have hst : st ∈ [Style.spaced, Style.compact] := by cases st <;> simp
  have h := c15_glue_table a (Cls.mem_all a) b (Cls.mem_all b) st hst
  cases hc : classSafe a b with
  | true => rfl
  | false =>
    have : knownHazard a b st = true := h (by simp [gluedUnsafe, hg, hc, ha, hb])
    rw [hk] at this
    exact absurd this (by simp)

/-- non-vacuity of `c15_glue_safe`: `foo(` -/
example : classSafe (.k .Ident) (.k .LParen) = true :=
  c15_glue_safe (.k .Ident) (.k .LParen) .spaced (by decide) (by decide) (by decide) (by decide)

/-- The re-lex guard is needed: the glue rule alone would write `( *` as `(*` (a comment opener), and in
compact style `/ /` as `//` and `: =` as `:=`. -/
theorem c15_relex_guard_needed :
    gluedUnsafe (.k .LParen) (.k .Star) .spaced = true ∧ gluedUnsafe (.k .Slash) (.k .Slash) .compact = true ∧
    gluedUnsafe (.k .Colon) (.k .Eq) .compact = true := by decide

/-- The re-lex guard cannot be restricted to lines that contain `(`, `.` or `..`, nor to the compact style:
in SPACED style the glue rule writes `NOT #stop` as `NOT#stop` (a typed-literal prefix), `x #y` as `x#y`,
`16 # FF` as `16#FF` and `T# -5s` / `T# 5` as `T#-5s` / `T#5` — seven unsafe class pairs without any of those three
tokens; and the list below is complete: every other pair that is glued unsafely in spaced style has a `(`, `.`
or `..` on one side. -/
theorem c15_relex_guard_needed_without_paren_or_dot :
    (∀ p ∈ [((Cls.k .Kw), (Cls.k .Hash)), (.k .Ident, .k .Hash), (.k .IntLiteral, .k .Hash),
            (.temporal, .k .Plus), (.temporal, .k .Minus), (.temporal, .k .IntLiteral), (.temporal, .k .RealLiteral)],
        gluedUnsafe p.1 p.2 .spaced = true) ∧
    (∀ a ∈ Cls.all, ∀ b ∈ Cls.all,
      (gluedUnsafe a b .spaced && !excludedKind a.kind && !excludedKind b.kind) = true →
        (a.kind == .LParen || a.kind == .Dot || a.kind == .DotDot ||
         b.kind == .LParen || b.kind == .Dot || b.kind == .DotDot ||
         [((Cls.k .Kw), (Cls.k .Hash)), (.k .Ident, .k .Hash), (.k .IntLiteral, .k .Hash),
          (.temporal, .k .Plus), (.temporal, .k .Minus), (.temporal, .k .IntLiteral),
          (.temporal, .k .RealLiteral)].contains (a, b)) = true) := by
  decide +kernel

/-! ## Clause 1, one line re-emitted by `format_line_tokens` -/

/-- The glued text of a token list without a recorded pair lexes to its tokens: on such lines the re-lex
guard answers `true` and the glued text is what `format_line_tokens` returns. -/
theorem c15_glued_line_relexes (L : LexIface) (ts : List Tok) (kc : KwCase) (st : Style)
    (hv : ∀ t ∈ ts, L.valid t) (hh : lineHazards st ts = []) :
    L.lex (gluedLine ts kc st) = ts.map (recaseTok kc) := by
  have h := formatLineTokensFrom_eq_render kc st none ts
  simp only [Option.map_none] at h
  unfold gluedLine
  rw [h]
  apply L.locality
  · intro t ht
    obtain ⟨u, hu, rfl⟩ := List.mem_map.mp ht
    exact L.valid_recase kc u (hv u hu)
  · exact adjAll_of_no_hazards L kc st ts hv hh

/-- Clause 1 for one code line (no comment, no pragma), in FULL: the text `format_line_tokens` returns
lexes to exactly the tokens it was made from (keywords re-cased as configured, `c15_recase`) — for EVERY
list of valid tokens, every spacing style and keyword case.  `relexOk` is the verdict of `relexes_to` on the
glued text, i.e. what the lexer says; when it is negative the one-space fallback is returned, which lexes
to its tokens by locality.  Relative to the abstract lexer interface `L`. -/
theorem c15_line_tokens (L : LexIface) (ts : List Tok) (kc : KwCase) (st : Style) (relexOk : Bool)
    (hv : ∀ t ∈ ts, L.valid t)
    (hr : relexOk = decide (L.lex (gluedLine ts kc st) = ts.map (recaseTok kc))) :
    L.lex (formatLineTokens ts kc st relexOk) = ts.map (recaseTok kc) := by
  unfold formatLineTokens
  cases hb : relexOk with
  | true =>
    rw [hb] at hr
    simp only [if_true]
    exact of_decide_eq_true hr.symm
  | false =>
    simp only [Bool.false_eq_true, if_false]
    rw [spacedLine_eq_render]
    apply L.locality
    · intro t ht
      obtain ⟨u, hu, rfl⟩ := List.mem_map.mp ht
      exact L.valid_recase kc u (hv u hu)
    · exact adjAll_never_glued _ _

/-- non-vacuity of the token hypotheses of `c15_line_tokens`: `x:=1 ;` has no glue hazard in either style and is
re-emitted as `x := 1;` / `x:=1;` (the interface `L` itself is an assumption about the real lexer, validated
by the harness; it is satisfiable, e.g. by the lexer that accepts no token) -/
example :
    let ts := [tk "Ident" .Ident "x", tk "Assign" .Assign ":=", tk "IntLiteral" .IntLiteral "1",
               tk "Semicolon" .Semicolon ";"]
    lineHazards .spaced ts = [] ∧ lineHazards .compact ts = [] ∧
    formatLineTokens ts .preserve .spaced true = txt "x := 1;" ∧
    formatLineTokens ts .preserve .compact true = txt "x:=1;" ∧
    formatLineTokens ts .preserve .compact false = txt "x := 1 ;" := by
  decide

example : LexIface :=
  { lex := fun _ => [], valid := fun _ => False, valid_kw := fun _ h => h.elim, valid_recase := fun _ _ h => h.elim,
    locality := fun _ ts hv _ => by
      cases ts with
      | nil => rfl
      | cons t _ => exact (hv t (by simp)).elim }

/-- "keywords compared case-insensitively": re-casing keeps variant and class, touches only keyword
tokens, and replaces their text by its ASCII upper- or lower-case form. -/
theorem c15_recase (kc : KwCase) (t : Tok) :
    (recaseTok kc t).name = t.name ∧ (recaseTok kc t).kind = t.kind ∧
    (t.isKw = false → (recaseTok kc t).text = t.text) ∧
    ((recaseTok kc t).text = t.text ∨ (recaseTok kc t).text = upperText t.text ∨
      (recaseTok kc t).text = lowerText t.text) := by
  unfold recaseTok recase
  cases kc <;> cases t.isKw <;> simp

/-! ## Clause 1, comments and pragmas: verbatim lines -/

/-- A line inside a block comment is emitted unchanged (only a trailing CR is normalised). -/
theorem c15_verbatim_block (cfg : Config) (st : St) (l : LineIn) (h : l.inBlockComment = true) :
    ∃ o st', stepLine cfg st l = some (o, st') ∧ o.text = l.text ∧ o.verbatim = true := by
  unfold stepLine
  simp [h, skipAlignOf, OutLine.verbatim]

/-- A line that carries a line comment or a pragma is emitted as indentation followed by the trimmed
source line: nothing between its first and last non-blank character is touched, and the alignment and
wrapping passes skip it. -/
theorem c15_verbatim_line (cfg : Config) (st : St) (l : LineIn) (o : OutLine) (st' : St)
    (hb : l.inBlockComment = false) (hv : (l.hasLineComment || l.hasPragma) = true)
    (h : stepLine cfg st l = some (o, st')) :
    o.skipAlign = true ∧ o.colon = none ∧
      ((o.text = [] ∧ trim l.text = []) ∨ ∃ n, o.text = repeatText (indentUnit cfg) n ++ trim l.text) := by
  unfold stepLine at h
  simp only [hb, Bool.false_eq_true, if_false] at h
  have hsk : skipAlignOf l = true := by
    unfold skipAlignOf
    rcases Bool.or_eq_true _ _ |>.mp hv with h1 | h1 <;> simp [h1]
  split at h
  · rename_i he
    simp only [Option.some.injEq, Prod.mk.injEq] at h
    obtain ⟨rfl, _⟩ := h
    exact ⟨hsk, rfl, Or.inl ⟨rfl, by simpa using he⟩⟩
  · split at h
    · exact absurd h (by simp)
    · simp only [Option.some.injEq, Prod.mk.injEq] at h
      obtain ⟨rfl, _⟩ := h
      unfold emitLine
      simp only [hv, if_true]
      exact ⟨hsk, by simp, Or.inr ⟨_, rfl⟩⟩

/-- non-vacuity of `c15_verbatim_line`: `  x:=1;  // c  ` at indent level 1 -/
example :
    (stepLine cfgDefault { indent := 1, inVar := false }
      { lineOf "  x:=1;  // c  " [tk "Ident" .Ident "x", tk "Assign" .Assign ":=", tk "IntLiteral" .IntLiteral "1",
                                   tk "Semicolon" .Semicolon ";"] with hasLineComment := true }).map (·.1.text) =
      some (txt "    x:=1;  // c") := by decide

/-- The wrapping pass returns a skipped line as it is. -/
theorem c15_verbatim_wrap (unit : Text) (m : Nat) (o : OutLine) (h : o.skipAlign = true) :
    wrapLine unit m o = [o.text] := by
  unfold wrapLine
  rw [h]
  split <;> rfl

/-- Clause 1 for comments and pragmas at document level: every line the per-line pass marked verbatim
(`c15_verbatim_block`, `c15_verbatim_line`: block-comment lines, lines with a line comment or a pragma) is
in the final output with exactly the text the per-line pass gave it, in the same order — the colon
alignment, the assignment alignment and the wrapping pass (whatever the configuration) never touch,
split, drop or reorder these lines. -/
theorem c15_verbatim_document (cfg : Config) (ls : List OutLine) :
    ((ls.filter (·.verbatim)).map (·.text)).Sublist (finalLines cfg ls) := by
  have hrel := rel_alignedLines cfg ls
  rw [hrel.filter_verbatim]
  unfold finalLines
  split
  · rename_i m _
    unfold wrapLongLines
    apply sublist_filter_flatMap
    intro x hx
    have hs : x.skipAlign = true := by
      unfold OutLine.verbatim at hx
      simp only [Bool.and_eq_true] at hx
      exact hx.1
    exact c15_verbatim_wrap _ _ x hs
  · exact (List.filter_sublist).map _

/-- non-vacuity: a comment line between two assignments that get aligned (wrapping switched on) -/
example :
    finalLines { cfgDefault with maxLen := some 10 }
      [ { text := txt "x := 1;", inVar := false, skipAlign := false },
        { text := txt "// a, b, c, d, e", inVar := false, skipAlign := true },
        { text := txt "long_name := f(a, b);", inVar := false, skipAlign := false } ] =
      [txt "x := 1;", txt "// a, b, c, d, e", txt "long_name := f(a,", txt "    b);"] := by decide

/-! ## Clause 4, the web IDE formatter -/

/-- Line structure: the web formatter emits, for every source line, either an empty line (the line was
blank) or spaces followed by the line without its leading white space and trailing blanks — nothing else
of a line changes. -/
theorem c15_web_lines (lvl : Nat) (raws : List Text) :
    (webLines lvl raws).length = raws.length ∧
    ∀ p ∈ raws.zip (webLines lvl raws),
      (p.2 = [] ∧ webCore p.1 = []) ∨ ∃ n, p.2 = spaces n ++ webCore p.1 := by
  induction raws generalizing lvl with
  | nil => simp [webLines]
  | cons r rest ih =>
    simp only [webLines, List.length_cons, List.zip_cons_cons, List.mem_cons]
    refine ⟨by rw [(ih _).1], ?_⟩
    intro p hp
    rcases hp with hp | hp
    · subst hp
      show ((webStep lvl r).1 = [] ∧ webCore r = []) ∨ ∃ n, (webStep lvl r).1 = spaces n ++ webCore r
      unfold webStep
      rcases webStepCore_cases lvl (webCore r) with ⟨h1, h2⟩ | ⟨n, h1, _⟩
      · exact Or.inl ⟨h1, h2⟩
      · exact Or.inr ⟨n, h1⟩
    · exact (ih _).2 p hp

/-- The web formatter changes white space only: the text without white space is preserved, for every
source text. -/
theorem c15_web_nonws (s : Text) : nonWs (webFormat s) = nonWs s := by
  rw [webFormat_eq]
  split
  · rename_i h
    rw [← nonWs_rustLines s, ← nonWs_webLines 0, ← nonWs_joinWith_nl, h]
  · rw [nonWs_append, nonWs_joinWith_nl, nonWs_webLines, nonWs_rustLines]
    have : nonWs ['\n'] = [] := by decide
    simp [this]

/-- Idempotence of the web formatter, in FULL (since fix 6232ed3 a trailing CR is trimmed with the other
trailing blanks): `format (format s) = format s` for every text. -/
theorem c15_web_idempotent (s : Text) : webFormat (webFormat s) = webFormat s := by
  have hs := webFormat_eq s
  by_cases hf : joinWith ['\n'] (webLines 0 (rustLines s)) = []
  · rw [hs]; simp only [hf, if_true]; decide
  · have hne : webLines 0 (rustLines s) ≠ [] := by
      intro e; apply hf; rw [e]; rfl
    have hnonl := webLines_no_nl 0 (rustLines s) (rustLines_no_nl s)
    have hcr : ∀ o ∈ webLines 0 (rustLines s), o.getLast? ≠ some '\r' :=
      webLines_last_ne_cr 0 _ (fun r _ => webCore_last_ne_cr r)
    have hlines : ∀ outs : List Text, outs ≠ [] → (∀ o ∈ outs, '\n' ∉ o) →
        (∀ o ∈ outs, o.getLast? ≠ some '\r') → rustLines (joinWith ['\n'] outs ++ ['\n']) = outs := by
      intro outs hne hnonl hcr
      unfold rustLines
      rw [splitOn_joinWith_append '\n' _ [] hne hnonl]
      have : splitOn '\n' [] = [[]] := rfl
      rw [this, rustLines_go_append_nil]
      have : ∀ o ∈ outs, stripCR o = o := fun o ho => stripCR_eq_self o (hcr o ho)
      rw [List.map_congr_left this, List.map_id']
    have hlines := hlines _ hne hnonl hcr
    rw [hs]
    simp only [hf, if_false]
    rw [webFormat_eq, hlines, webLines_idem]
    simp [hf]

/-- the former counterexample (`CR CR LF`) and a CRLF program, now fixed points after one run -/
example : webFormat (txt "a\r\r\n") = txt "a\n" ∧
    webFormat (txt "IF a THEN\r\nx;\nEND_IF") = txt "IF a THEN\n  x;\nEND_IF\n" := by decide

/-- The alarm guard `noStrayCR` of the check can never fire on the repaired code. -/
theorem c15_web_no_stray_cr (s : Text) : noStrayCR s = true := by
  unfold noStrayCR
  rw [List.all_eq_true]
  intro raw _
  have := webCore_last_ne_cr raw
  simpa using this

/-- Clause 4 ("same comments") is FALSE of the web formatter: the interior lines of a multi-line block
comment are trimmed and re-indented (known finding C15-web-multiline-trivia). -/
theorem c15_web_comment_counterexample :
    webFormat (txt "(* a\n     b *)\n") = txt "(* a\nb *)\n" := by decide

/-! ## Robustness: the per-line loop never panics (fix 2b1ad0b clamps the indent level at zero) -/

/-- For EVERY configuration `format_document` never reaches the negative `current_indent` that makes
`indent_unit.repeat(current_indent as usize)` panic: for every list of lines, from every state with a
non-negative indent (the initial state has indent 0). -/
theorem c15_no_panic (cfg : Config) (ls : List LineIn) (st : St) (hi : 0 ≤ st.indent) :
    (runLines cfg st ls).isSome = true := by
  induction ls generalizing st with
  | nil => simp [runLines]
  | cons l rest ih =>
    unfold runLines
    have hci := curIndent_nonneg cfg st.indent l.toks hi
    unfold stepLine
    by_cases hb : l.inBlockComment = true
    · simp only [hb, if_true]
      have := ih { st with inVar := nextInVar st.inVar l.toks } hi
      cases hr : runLines cfg { st with inVar := nextInVar st.inVar l.toks } rest with
      | none => rw [hr] at this; simp at this
      | some os => simp
    · simp only [hb, Bool.false_eq_true, if_false]
      by_cases he : (trim l.text).isEmpty = true
      · simp only [he, if_true]
        have := ih { st with inVar := nextInVar st.inVar l.toks } hi
        cases hr : runLines cfg { st with inVar := nextInVar st.inVar l.toks } rest with
        | none => rw [hr] at this; simp at this
        | some os => simp
      · simp only [he, Bool.false_eq_true, if_false]
        generalize curIndent cfg st.indent l.toks = ci at hci
        have hneg : ¬ ci.1 < 0 := by omega
        simp only [hneg, if_false]
        have hnext : 0 ≤ nextIndent ci.1 ci.2 l.toks := nextIndent_nonneg _ _ _ hci
        generalize hst2 : ({ indent := nextIndent ci.1 ci.2 l.toks, inVar := nextInVar st.inVar l.toks } : St) = st2
        have hi2 : 0 ≤ st2.indent := by rw [← hst2]; exact hnext
        have := ih st2 hi2
        cases hr : runLines cfg st2 rest with
        | none => rw [hr] at this; simp at this
        | some os => simp

/-- the former panic witness (`END_IF` / `x` with `endKeywordStyle = indented`) is formatted now -/
example :
    formatDocument { cfgDefault with endStyle := .indented }
      { lines := [lineOf "END_IF" [tk "KwEndIf" .Kw "END_IF"], lineOf "x" [tk "Ident" .Ident "x"]],
        crlf := false, endsNl := false } = some (txt "END_IF\nx") := by decide

/-! ## Clause 1: the colon alignment only uses a colon that is a token (fix b483235) -/

/-- When the first ':' of a VAR-block line is not a `Colon` token (it lies inside a string or time
literal) the line gets no colon index, so `align_var_block_colons` never pads inside it. -/
theorem c15_colon_guard (cfg : Config) (l : LineIn) (inVar : Bool) (cur : Nat)
    (h : firstColonIsToken l.toks = false) : (emitLine cfg l inVar cur).colon = none := by
  unfold emitLine
  simp [h]

/-- non-vacuity: the continuation line `'a:b',` of an initialiser, the former witness -/
example :
    let l := lineOf "'a:b'," [tk "StringLiteral" .StringLiteral "'a:b'", tk "Comma" .Comma ","]
    firstColonIsToken l.toks = false ∧ (emitLine cfgDefault l true 2).colon = none ∧
    firstColonIsToken [tk "Ident" .Ident "arr", tk "Colon" .Colon ":", tk "KwInt" .Kw "INT"] = true := by decide

/-! ## Clause 3: range and on-type edits -/

/-- The edit built by `format_lines_edit(source, formatted, a, b)` replaces exactly the source lines
`a..=b` by the formatted lines `a..=b` and leaves every other line alone — for every source, every
formatted text and every line range that does not include the last line (LF line ends).
So the edit re-lays-out only the lines it covers *provided formatted line i is the layout of source
line i*; that is the case as long as no line was wrapped (`c15_range_line_count`: range and on-type formatting do not wrap). -/
theorem c15_range_edit (src formatted : Text) (a b : Nat) (e : Edit)
    (hcr : containsText src ['\r', '\n'] = false)
    (hfcr : ∀ l ∈ splitOn '\n' formatted, stripCR l = l)
    (hab : a ≤ b) (hb : b + 1 < (srcLines src).length)
    (he : formatLinesEdit src formatted a b = some e) :
    srcLines (applyLineEdit src e) =
      (srcLines src).take a ++ ((splitOn '\n' formatted).drop a).take (b + 1 - a) ++
        (srcLines src).drop (b + 1) := by
  have hmap : (splitOn '\n' formatted).map stripCR = splitOn '\n' formatted := by
    rw [List.map_congr_left hfcr, List.map_id']
  unfold formatLinesEdit at he
  simp only [hcr, hmap, newlineOf, Bool.false_eq_true, if_false] at he
  have h1 : ¬ a ≥ (srcLines src).length := by omega
  simp only [h1, if_false] at he
  split at he
  · exact absurd he (by simp)
  · rename_i hlen
    have hlen' : b < (splitOn '\n' formatted).length := by
      simp only [Bool.or_eq_true, decide_eq_true_eq, not_or] at hlen
      omega
    simp only [hb, if_true, Bool.true_or, decide_true, Option.some.injEq] at he
    subst he
    unfold applyLineEdit
    simp only [if_true]
    have hsl : ∀ x ∈ (srcLines src).take a, '\n' ∉ x := fun x hx =>
      splitOn_mem_no_sep '\n' src x (List.mem_of_mem_take hx)
    have hpk : ∀ x ∈ ((splitOn '\n' formatted).drop a).take (b + 1 - a), '\n' ∉ x := fun x hx =>
      splitOn_mem_no_sep '\n' formatted x (List.mem_of_mem_drop (List.mem_of_mem_take hx))
    have hpne : ((splitOn '\n' formatted).drop a).take (b + 1 - a) ≠ [] := by
      intro e
      have := congrArg List.length e
      simp only [List.length_take, List.length_drop, List.length_nil] at this
      omega
    have hdr : ∀ x ∈ (srcLines src).drop (b + 1), '\n' ∉ x := fun x hx =>
      splitOn_mem_no_sep '\n' src x (List.mem_of_mem_drop hx)
    have hdne : (srcLines src).drop (b + 1) ≠ [] := by
      intro e
      have := congrArg List.length e
      simp only [List.length_drop, List.length_nil] at this
      omega
    unfold srcLines at *
    rw [List.append_assoc, splitOn_flatMap_append _ _ hsl, List.append_assoc]
    simp only [List.singleton_append]
    rw [splitOn_joinWith_append '\n' _ _ hpne hpk, splitOn_joinWith '\n' _ hdne hdr]
    simp [List.append_assoc]

/-- non-vacuity of `c15_range_edit`: re-indenting the middle line of three -/
example : srcLines (applyLineEdit (txt "a\nb\nc") { sl := 1, sc := 0, el := 2, ec := 0, newText := txt "  b\n" }) =
    [txt "a", txt "  b", txt "c"] :=
  c15_range_edit (txt "a\nb\nc") (txt "a\n  b\nc") 1 1 _ (by decide) (by decide) (by decide) (by decide) (by decide)

/-- Clause 3, line correspondence: without wrapping (range and on-type formatting set
`max_line_length = None` since fix 26b5189, see `rangeFormat` / `onTypeFormat`) the formatted document
has exactly one line per source line — the per-line loop emits one line per line and the alignment
passes keep the count — so formatted line i is the layout of source line i and `c15_range_edit` applies. -/
theorem c15_range_line_count (cfg : Config) (hm : cfg.maxLen = none) (ls : List LineIn) (st : St)
    (outs : List OutLine) (h : runLines cfg st ls = some outs) :
    (finalLines cfg outs).length = ls.length := by
  unfold finalLines
  rw [hm]
  simp only [List.length_map]
  rw [(rel_alignedLines cfg outs).length, runLines_length cfg ls st outs h]

/-- the former witness of C15-wrap-range-index: with `maxLineLength = 20` full formatting wraps line 0,
on-type formatting of line 1 (`x := 1;`) no longer returns a piece of line 0 — nothing to change -/
example :
    onTypeFormat { cfgDefault with maxLen := some 20 } wrapSrc wrapDoc 1 = .edits [] ∧
    (runLines { cfgDefault with maxLen := none } {} wrapDoc.lines).isSome = true := by decide +kernel

/-- Clause 2 (idempotence) is FALSE of the LSP formatter for the same text: the continuation indent of a
wrapped line is not reproduced by the second run.  Known finding C15-wrap-not-idempotent (the second
document is the first output, with the tokens the real lexer finds in it). -/
theorem c15_wrap_idempotent_counterexample :
    formatDocument { cfgDefault with maxLen := some 20 } wrapDoc =
      some (txt "foo(aaaaaaaa,\n    bbbbbbbbb,\n    ccccccccc);\nx := 1;\n") ∧
    formatDocument { cfgDefault with maxLen := some 20 }
      { lines := [
          lineOf "foo(aaaaaaaa," [tk "Ident" .Ident "foo", tk "LParen" .LParen "(", tk "Ident" .Ident "aaaaaaaa",
                                  tk "Comma" .Comma ","],
          lineOf "    bbbbbbbbb," [tk "Ident" .Ident "bbbbbbbbb", tk "Comma" .Comma ","],
          lineOf "    ccccccccc);" [tk "Ident" .Ident "ccccccccc", tk "RParen" .RParen ")",
                                    tk "Semicolon" .Semicolon ";"],
          lineOf "x := 1;" [tk "Ident" .Ident "x", tk "Assign" .Assign ":=", tk "IntLiteral" .IntLiteral "1",
                            tk "Semicolon" .Semicolon ";"],
          lineOf "" []],
        crlf := false, endsNl := true } =
      some (txt "foo(aaaaaaaa,\nbbbbbbbbb,\nccccccccc);\nx := 1;\n") := by
  decide +kernel

/-! ## The assignment alignment pass (`align_assignment_ops`) -/

/-- `align_assignment_ops` inserts white space only, for EVERY list of lines: no character of any line is
lost, changed or reordered.  Where the white space goes is `find_assignment_op`: since the fix
PENDING-C15-align-assign the start of the line's first `Assign` / `Arrow` TOKEN (`findAssignOp`,
`c15_align_assign_at_token`), no longer the first text occurrence of ":=" / "=>". -/
theorem c15_align_assign (ls : List OutLine) :
    (alignAssignOps ls).map (fun x => nonWs x.text) = ls.map (fun x => nonWs x.text) :=
  nonWs_alignAssignOps_go _ _

/-- The padding index is a token boundary: in front of the index `find_assignment_op` returns there are
exactly the `n` non-white-space characters of the tokens that precede the first `Assign` / `Arrow` token
(whenever the line has more than `n` such characters, i.e. the token is there). -/
theorem c15_align_assign_at_token (o : OutLine) (n i : Nat) (hs : o.opSkip = some n)
    (hn : n < (nonWs o.text).length) (hi : findAssignOp o = some i) :
    (nonWs (splitAtByte o.text i).1).length = n := by
  unfold findAssignOp at hi
  rw [hs] at hi
  simp only [Option.map_some, Option.some.injEq] at hi
  rw [← hi]
  exact nonWs_splitAt_offsetAfter o.text n hn

/-- non-vacuity / the pass at work: `x:=1;` is padded to the operator column of `longer:=2;` -/
example :
    (alignAssignOps [{ text := txt "x:=1;", inVar := false, skipAlign := false, opSkip := some 1 },
                     { text := txt "longer:=2;", inVar := false, skipAlign := false, opSkip := some 6 }]).map (·.text) =
      [txt "x     :=1;", txt "longer:=2;"] ∧
    findAssignOp { text := txt "  x :=1;", inVar := false, skipAlign := false, opSkip := some 1 } = some 4 := by
  decide +kernel

/-- the former counterexample (finding C15-align-assign-op-in-token, repaired): in compact style `a <= > b;` is
re-emitted as `a<=>b;`; the line has no `Assign` / `Arrow` token, so the alignment pass leaves it alone (the text
search used to find "=>" across the boundary of `<=` `>` and padded there: `a<         =>b;`), and formatting the
result again changes nothing. -/
example :
    formatDocument { cfgDefault with style := .compact }
      { lines := [
          lineOf "longer_name := 1;" [tk "Ident" .Ident "longer_name", tk "Assign" .Assign ":=",
                                      tk "IntLiteral" .IntLiteral "1", tk "Semicolon" .Semicolon ";"],
          lineOf "a <= > b;" [tk "Ident" .Ident "a", tk "LtEq" .LtEq "<=", tk "Gt" .Gt ">", tk "Ident" .Ident "b",
                              tk "Semicolon" .Semicolon ";"],
          lineOf "" []],
        crlf := false, endsNl := true } =
      some (txt "longer_name:=1;\na<=>b;\n") ∧
    formatDocument { cfgDefault with style := .compact }
      { lines := [
          lineOf "longer_name:=1;" [tk "Ident" .Ident "longer_name", tk "Assign" .Assign ":=",
                                    tk "IntLiteral" .IntLiteral "1", tk "Semicolon" .Semicolon ";"],
          lineOf "a<=>b;" [tk "Ident" .Ident "a", tk "LtEq" .LtEq "<=", tk "Gt" .Gt ">", tk "Ident" .Ident "b",
                           tk "Semicolon" .Semicolon ";"],
          lineOf "" []],
        crlf := false, endsNl := true } =
      some (txt "longer_name:=1;\na<=>b;\n") := by
  decide +kernel

/-- `textDocument/formatting` answers with no edit when the text is already formatted, and otherwise with
exactly one edit that replaces the whole document (from 0:0 to the end position) by the formatted text. -/
theorem c15_full_edit (cfg : Config) (src : Text) (d : Doc) (es : List Edit)
    (h : fullFormat cfg src d = .edits es) :
    (es = [] ∧ formatDocument cfg d = some src) ∨
    ∃ f, formatDocument cfg d = some f ∧ f ≠ src ∧
      es = [{ sl := 0, sc := 0, el := (endPosition src).1, ec := (endPosition src).2, newText := f }] := by
  unfold fullFormat at h
  split at h
  · exact absurd h (by simp)
  · rename_i f hf
    split at h
    · rename_i heq
      left
      simp only [Reply.edits.injEq] at h
      exact ⟨h.symm, by rw [hf, heq]⟩
    · rename_i hne
      right
      simp only [Reply.edits.injEq] at h
      exact ⟨f, hf, hne, h.symm⟩

end TrustVerif.C15
