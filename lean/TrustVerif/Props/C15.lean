import TrustVerif.Model.C15

namespace TrustVerif.C15

/-- placeholder while the pipeline is brought up -/
theorem c15_stub : shouldGlue .LParen .Star .spaced = true := by decide

end TrustVerif.C15
