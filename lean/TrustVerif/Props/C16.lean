import TrustVerif.Lemmas.C16

/-!
# C16 — rename preserves program meaning and is reversible

Property theorems only.  `Model/C16.lean` mirrors `trust_ide::rename::rename` (target resolution,
validity gate, `has_conflict`, reference search) on a scope model of a multi-file project; `binding`
is the reference semantics of an identifier occurrence.

The full statement (“an accepted rename keeps every binding and can be undone”) is **false** for the
code as it is: the `c16_counterexample_*` theorems exhibit accepted renames that capture a reference,
shadow another symbol, clash across files, or cannot be undone.  The `*_partial` theorems hold under
the explicit decidable guards `noClash` (no lookup is disturbed by the new name), `noBlind` (every
occurrence whose lookup finds the symbol is one the reference search reports) and `uniform` (all
renamed occurrences were spelled like the declaration).

Three blind spots of the reference search are repaired in /repo (C16-missed-arg, C16-missed-ctask,
C16-missed-cprog): formal names of named arguments and the task / program type names of program
configurations are reported now.  `c16_reference_search_complete` states that for the model, the
former counterexample is the regression theorem `c16_named_argument_renamed`, and `noBlind` no longer
excludes those occurrences (`c16_noBlind_named_argument_and_configuration`).
-/
namespace TrustVerif.C16

/-! ## clause “valid new name” -/

/-- **Gate.**  A rename that is not refused was given a valid identifier that is not a reserved word
(`is_valid_identifier`, `is_reserved_keyword`; the keyword table is translated from the Rust source). -/
theorem c16_gate (P : Project) (f off : Nat) (n : Name) (es : List Edit)
    (h : rename P f off n = some es) : validIdent n = true ∧ reserved n = false := by
  unfold rename at h
  split at h
  · cases h
  · next o _ =>
    cases ht : renameTarget P o n with
    | none => simp [ht] at h
    | some d =>
      obtain ⟨_, h2, h3, _⟩ := renameTarget_spec ht
      exact ⟨h2, h3⟩

/-- **Same-scope conflicts are refused** (the part of the conflict check the code does implement):
if another declaration of the declaring scope, in the file the request comes from, already has the
new name, the rename is refused. -/
theorem c16_refuses_declaring_scope_conflict (P : Project) (o : Occ) (n : Name) (d c : Decl)
    (ht : target P o = some d) (hfile : d.file = o.file) (hc : c ∈ P.decls) (hne : c.id ≠ d.id)
    (hsame : c.file = d.file ∧ c.scope = d.scope) (hname : eqv c.name n = true) :
    renameOcc P o n = none := by
  unfold renameOcc renameTarget
  simp only [ht]
  have hconf : conflict P o.file d n = true := by
    unfold conflict
    simp only [hfile, beq_self_eq_true, Bool.true_and, List.any_eq_true]
    refine ⟨c, hc, ?_⟩
    simp [hne, hsame.1, hsame.2, hname, hfile]
  split
  · rfl
  · rfl

/-! ## clause “non-overlapping in-bounds edits that each replace one identifier occurrence” -/

/-- **Edits are well-formed**, for every project, position and new name (no guard): the edit list of
an accepted rename is a sub-list of the project's identifier-occurrence ranges (so every edit covers
exactly one identifier occurrence and no occurrence is edited twice), edits of one file are ordered
and disjoint, and every edit lies inside its file. -/
theorem c16_edits_wf (P : Project) (f off : Nat) (n : Name) (es : List Edit)
    (h : rename P f off n = some es) :
    es.Sublist ((layout P).map (·.2)) ∧
    es.Pairwise (fun a b => a.file ≠ b.file ∨ a.stop ≤ b.start) ∧
    (∀ e ∈ es, ∃ o, (o, e) ∈ layout P ∧ o ∈ P.occs ∧ e.file = o.file ∧ e.stop = e.start + o.name.length ∧
      e.stop ≤ fileLen P e.file) := by
  unfold rename at h
  split at h
  · cases h
  · next o _ =>
    cases ht : renameTarget P o n with
    | none => simp [ht] at h
    | some d =>
      simp only [ht, Option.map_some, Option.some.injEq] at h
      subst h
      have hsub : (editsFor P d).Sublist ((layout P).map (·.2)) := by
        unfold editsFor
        exact List.Sublist.map _ List.filter_sublist
      refine ⟨hsub, ?_, ?_⟩
      · apply List.Pairwise.sublist hsub
        rw [List.pairwise_map]
        exact layoutAux_pairwise _ _
      · intro e he
        unfold editsFor at he
        simp only [List.mem_map, List.mem_filter] at he
        obtain ⟨p, ⟨hp, _⟩, rfl⟩ := he
        obtain ⟨h1, _, h3⟩ := layoutAux_start_ge _ _ p hp
        have h4 := layoutAux_stop_le _ _ p hp
        refine ⟨p.1, hp, ?_, h1, h3, ?_⟩
        · have : p.1 ∈ (layout P).map (·.1) := List.mem_map.mpr ⟨p, hp, rfl⟩
          rwa [layout_occs] at this
        · unfold fileLen
          exact Nat.le_trans h4 (Nat.le_add_right _ _)

/-! ## clause “no captured or newly shadowed binding” -/

/-- **The reference search is complete for non-type symbols** (clause “edits … each replace one
identifier occurrence”, together with no reference left behind): a name reference, a member access,
the formal name of a named argument (`f(p := x)`, `fb(p := x, q => y)`, `inst.m(p := x)`), the
`WITH task` name and the program type of a program configuration is reported as a reference to the
non-type symbol `d` — and therefore edited by a rename of `d` — exactly when it denotes `d`.
(Before the repairs of C16-missed-arg / -ctask / -cprog the last three kinds were never reported.) -/
theorem c16_reference_search_complete (P : Project) (d : Decl) (o : Occ)
    (hty : isType d.kind = false)
    (hk : o.kind = .ref ∨ o.kind = .mem ∨ o.kind = .arg ∨ o.kind = .ctask ∨ o.kind = .cprog) :
    refsTo P d o = (bindingId P o == some d.id) := by
  unfold refsTo bindingId binding
  rcases hk with hk | hk | hk | hk | hk <;> simp [hk, hty]

/-- **`noBlind` does not exclude named arguments and program configurations any more**: for such an
occurrence the `noBlind` condition (lookup finds `d` ⇒ reported) holds by itself — always for a formal
argument name and a `WITH task` name, and for a program type name whenever `d` is a PROGRAM. -/
theorem c16_noBlind_named_argument_and_configuration (P : Project) (d : Decl) (o : Occ)
    (hk : o.kind = .arg ∨ o.kind = .ctask ∨ (o.kind = .cprog ∧ d.kind = .prog)) :
    (lookup (finalList P o) o.name != some d || refsTo P d o) = true := by
  cases hl : lookup (finalList P o) o.name with
  | none => simp
  | some c =>
    by_cases hcd : c = d
    · subst hcd
      have hmem := lookup_mem hl
      unfold finalList at hl hmem
      unfold refsTo
      rcases hk with hk | hk | ⟨hk, hp⟩
      · simp only [hk] at hl hmem ⊢
        cases hb : baseOf P o with
        | none => simp [hb] at hmem
        | some b =>
          simp only [hb] at hl hmem
          have hpar : c.kind = .param := by
            unfold paramList at hmem
            split at hmem
            · simp at hmem
            · simp only at hmem
              split at hmem
              · simp at hmem
              · simpa using (List.mem_filter.mp hmem).2
          simp [resolveArg, hb, hl, isType, hpar]
      · simp only [hk] at hl hmem ⊢
        have htask : c.kind = .task := by simpa using (List.mem_filter.mp hmem).2
        simp [resolveCTask, hl, isType, htask]
      · simp only [hk] at hl hmem ⊢
        simp [resolveCProg, hl, isType, hp, Option.filter]
    · simp [hcd]

/-- **Binding preservation (partial).**  If the rename at occurrence `o` is accepted and renames `d`,
then under `noClash` and `noBlind` every identifier occurrence of the project denotes, after the
rename, the same declaration (same id) as before — no reference is captured, no symbol newly
shadowed, in any file. -/
theorem c16_binding_preserved_partial (P P' : Project) (o : Occ) (n : Name) (d : Decl)
    (hwf : wf P = true) (ht : renameTarget P o n = some d) (hren : renameOcc P o n = some P')
    (hclash : noClash P d n = true) (hblind : noBlind P d = true) :
    P'.occs.length = P.occs.length ∧
    ∀ (i : Nat) (o1 : Occ), P.occs[i]? = some o1 →
      ∃ o2, P'.occs[i]? = some o2 ∧ o2.kind = o1.kind ∧ bindingId P' o2 = bindingId P o1 := by
  have hd : d ∈ P.decls := target_mem (renameTarget_spec ht).1
  have hP' : P' = applyRename P d n := by
    unfold renameOcc at hren
    simp only [ht, Option.map_some, Option.some.injEq] at hren
    exact hren.symm
  subst hP'
  have ctx : Ctx P d n := ⟨hwf, hd, hclash, hblind⟩
  refine ⟨by simp, ?_⟩
  intro i o1 hi
  refine ⟨renameOccName P d n o1, ?_, by simp, bindingId_stable ctx (List.mem_of_getElem? hi)⟩
  simp [hi]

/-- **α-equivalence.**  Under the same guards the renamed project and the original have the same
name-free form (`erase`: every occurrence replaced by the id of the declaration it denotes).
Diagnostics and run-time behaviour are functions of the name-free form up to the spelling of names —
that step is the tested assumption (oracle on the implementation), not proved here. -/
theorem c16_alpha_partial (P : Project) (n : Name) (d : Decl)
    (hwf : wf P = true) (hd : d ∈ P.decls)
    (hclash : noClash P d n = true) (hblind : noBlind P d = true) :
    erase (applyRename P d n) = erase P := by
  have ctx : Ctx P d n := ⟨hwf, hd, hclash, hblind⟩
  unfold erase
  simp only [applyRename_occs, List.map_map]
  apply List.map_congr_left
  intro o ho
  simp only [Function.comp, renameOccName_kind]
  have := bindingId_stable ctx ho
  unfold bindingId at this
  rw [this]

/-! ## clause “renaming back to the old name restores the original text exactly” -/

/-- **Reversibility (partial).**  Under `noClash`, `noBlind` and `uniform` (all renamed occurrences
were spelled exactly like the declaration), in a project without duplicate declarations whose old name
is itself a legal identifier, renaming the symbol back at its declaration is accepted and yields
exactly the original project (same names, hence — the layout being derived from the names — the same
text). -/
theorem c16_reversible_partial (P : Project) (n : Name) (d : Decl) (od : Occ)
    (hwf : wf P = true) (hd : d ∈ P.decls) (hnd : noDupScope P = true)
    (hold : validIdent d.name = true ∧ reserved d.name = false)
    (hod : od.kind = .decl ∧ od.link = some d.id)
    (hclash : noClash P d n = true) (hblind : noBlind P d = true) (hu : uniform P d = true) :
    renameOcc (applyRename P d n) (renameOccName P d n od) d.name = some P := by
  have ctx : Ctx P d n := ⟨hwf, hd, hclash, hblind⟩
  have htarget : target (applyRename P d n) (renameOccName P d n od) = some (renameDecl d n d) := by
    unfold target
    simp only [renameOccName_kind, hod.1, renameOccName_link, hod.2, Option.bind_some, declById_rename,
      declById_self hwf hd, Option.map_some]
  unfold renameOcc renameTarget
  simp only [htarget, hold.1, hold.2, conflict_back ctx hnd, Bool.not_true, Bool.or_self,
    Bool.false_eq_true, if_false, Option.map_some]
  rw [applyRename_back ctx hu]

/-! ## the symbol that is renamed is the one under the cursor (where that is true) -/

/-- **Target (partial).**  At a declaration, a type name, a member access, and at a name reference that
is not the base of a member access, the renamed symbol is the declaration the occurrence denotes. -/
theorem c16_target_partial (P : Project) (o : Occ) (c : Decl) (hb : binding P o = some c)
    (hk : o.kind = .decl ∨ o.kind = .typ ∨ o.kind = .mem ∨ (o.kind = .ref ∧ isBase P o = false)) :
    target P o = some c := by
  unfold binding at hb
  unfold target
  rcases hk with hk | hk | hk | ⟨hk, hbase⟩
  · simp only [hk] at hb ⊢; exact hb
  · simp only [hk] at hb ⊢; simp [orElse, hb]
  · simp only [hk] at hb ⊢; simp [orElse, hb]
  · simp only [hk] at hb ⊢; simp [orElse, hb, hbase]

/-! ## counterexamples: the full statement is false for the code as it is -/

section witnesses

def nConf : Name := [67, 111, 110, 102]   -- Conf
def nMain : Name := [77, 97, 105, 110]    -- Main
def nG : Name := [103]                    -- g
def nX : Name := [120]                    -- x
def nU : Name := [117]                    -- u
def nFoo : Name := [70, 111, 111]         -- Foo
def nBar : Name := [66, 97, 114]          -- Bar
def nK : Name := [107]                    -- k
def nR : Name := [114]                    -- r
def nFast : Name := [70, 97, 115, 116]    -- Fast
def nInst : Name := [73, 110, 115, 116]   -- Inst

/-- ```
CONFIGURATION Conf VAR_GLOBAL g : DINT; END_VAR END_CONFIGURATION
PROGRAM Main VAR x : DINT; END_VAR  x := g; END_PROGRAM
``` -/
def capP : Project :=
  { tails := [13],
    scopes := [⟨0, 0⟩, ⟨0, 2⟩],
    decls := [⟨0, 0, 0, .cfg, nConf, none⟩, ⟨1, 0, 0, .var, nG, none⟩, ⟨2, 0, 0, .prog, nMain, none⟩,
              ⟨3, 0, 2, .var, nX, none⟩],
    occs := [⟨0, 14, nConf, 0, .decl, some 0⟩, ⟨0, 12, nG, 0, .decl, some 1⟩, ⟨0, 43, nMain, 2, .decl, some 2⟩,
             ⟨0, 5, nX, 2, .decl, some 3⟩, ⟨0, 17, nX, 2, .ref, none⟩, ⟨0, 4, nG, 2, .ref, none⟩] }

def capDeclG : Occ := ⟨0, 12, nG, 0, .decl, some 1⟩
def capDeclX : Occ := ⟨0, 5, nX, 2, .decl, some 3⟩

/-- **Capture.**  Renaming the global `g` to `x` is accepted (the declaring scope, GLOBAL, has no `x`),
and afterwards the use of `g` inside `Main` denotes the local `x`. -/
theorem c16_counterexample_capture :
    ∃ P o n P', wf P = true ∧ noDupScope P = true ∧ renameOcc P o n = some P' ∧
      ∃ (i : Nat) (o1 o2 : Occ), P.occs[i]? = some o1 ∧ P'.occs[i]? = some o2 ∧ bindingId P' o2 ≠ bindingId P o1 :=
  ⟨capP, capDeclG, nX, applyRename capP ⟨1, 0, 0, .var, nG, none⟩ nX, by decide, by decide, by decide,
   5, ⟨0, 4, nG, 2, .ref, none⟩, ⟨0, 4, nX, 2, .ref, none⟩, by decide, by decide, by decide⟩

/-- **New shadowing.**  Renaming the local `x` to `g` is accepted (the declaring scope, `Main`, has no
`g`), and afterwards the use of the global `g` inside `Main` denotes the local. -/
theorem c16_counterexample_shadow :
    ∃ P o n P', wf P = true ∧ noDupScope P = true ∧ renameOcc P o n = some P' ∧
      ∃ (i : Nat) (o1 o2 : Occ), P.occs[i]? = some o1 ∧ P'.occs[i]? = some o2 ∧ bindingId P' o2 ≠ bindingId P o1 :=
  ⟨capP, capDeclX, nG, applyRename capP ⟨3, 0, 2, .var, nX, none⟩ nG, by decide, by decide, by decide,
   5, ⟨0, 4, nG, 2, .ref, none⟩, ⟨0, 4, nG, 2, .ref, none⟩, by decide, by decide, by decide⟩

/-- file 0: `FUNCTION Foo … END_FUNCTION`; file 1: `FUNCTION Bar … END_FUNCTION  PROGRAM Main … Foo(…) … END_PROGRAM` -/
def xfP : Project :=
  { tails := [20, 13],
    scopes := [⟨0, 0⟩, ⟨0, 1⟩, ⟨0, 2⟩],
    decls := [⟨0, 0, 0, .func, nFoo, none⟩, ⟨1, 1, 0, .func, nBar, none⟩, ⟨2, 1, 0, .prog, nMain, none⟩],
    occs := [⟨0, 9, nFoo, 1, .decl, some 0⟩, ⟨1, 9, nBar, 2, .decl, some 1⟩, ⟨1, 30, nMain, 3, .decl, some 2⟩,
             ⟨1, 10, nFoo, 3, .ref, none⟩] }

/-- **Cross-file clash.**  `Foo` (file 0) is renamed to `Bar`, which file 1 already declares: accepted
(the single-file table of file 0 has no `Bar`), and the call of `Foo` in file 1 now denotes file 1's own `Bar`. -/
theorem c16_counterexample_cross_file :
    ∃ P o n P', wf P = true ∧ noDupScope P = true ∧ renameOcc P o n = some P' ∧
      ∃ (i : Nat) (o1 o2 : Occ), P.occs[i]? = some o1 ∧ P'.occs[i]? = some o2 ∧ bindingId P' o2 ≠ bindingId P o1 :=
  ⟨xfP, ⟨0, 9, nFoo, 1, .decl, some 0⟩, nBar, applyRename xfP ⟨0, 0, 0, .func, nFoo, none⟩ nBar,
   by decide, by decide, by decide,
   3, ⟨1, 10, nFoo, 3, .ref, none⟩, ⟨1, 10, nBar, 3, .ref, none⟩, by decide, by decide, by decide⟩

/-- ```
FUNCTION Foo : DINT VAR_INPUT k : DINT; END_VAR  Foo := k; END_FUNCTION
PROGRAM Main VAR r : DINT; END_VAR  r := Foo(k := 1); END_PROGRAM
``` -/
def argP : Project :=
  { tails := [20],
    scopes := [⟨0, 0⟩, ⟨0, 2⟩],
    decls := [⟨0, 0, 0, .func, nFoo, none⟩, ⟨1, 0, 1, .param, nK, none⟩, ⟨2, 0, 0, .prog, nMain, none⟩,
              ⟨3, 0, 2, .var, nR, none⟩],
    occs := [⟨0, 9, nFoo, 1, .decl, some 0⟩, ⟨0, 23, nK, 1, .decl, some 1⟩, ⟨0, 18, nFoo, 1, .ref, none⟩,
             ⟨0, 4, nK, 1, .ref, none⟩, ⟨0, 24, nMain, 2, .decl, some 2⟩, ⟨0, 5, nR, 2, .decl, some 3⟩,
             ⟨0, 17, nR, 2, .ref, none⟩, ⟨0, 4, nFoo, 2, .ref, none⟩, ⟨0, 1, nK, 2, .arg, some 7⟩] }

/-- **Named argument (regression witness of the repaired C16-missed-arg).**  Renaming the parameter `k`
to the fresh name `u` is accepted, the guards hold, the edit list contains the formal name of the named
argument `Foo(k := 1)` (the last of the three edits), the occurrence is spelled `u` afterwards and still
denotes the parameter.  (Before the repair the formal name was left behind and denoted nothing: the real
compiler reported “unknown parameter 'k'”.) -/
theorem c16_named_argument_renamed :
    wf argP = true ∧ noDupScope argP = true ∧
    noClash argP ⟨1, 0, 1, .param, nK, none⟩ nU = true ∧ noBlind argP ⟨1, 0, 1, .param, nK, none⟩ = true ∧
    rename argP 0 35 nU = some [⟨0, 35, 36⟩, ⟨0, 61, 62⟩, ⟨0, 122, 123⟩] ∧
    renameOcc argP ⟨0, 23, nK, 1, .decl, some 1⟩ nU = some (applyRename argP ⟨1, 0, 1, .param, nK, none⟩ nU) ∧
    (applyRename argP ⟨1, 0, 1, .param, nK, none⟩ nU).occs[8]? = some ⟨0, 1, nU, 2, .arg, some 7⟩ ∧
    bindingId argP ⟨0, 1, nK, 2, .arg, some 7⟩ = some 1 ∧
    bindingId (applyRename argP ⟨1, 0, 1, .param, nK, none⟩ nU) ⟨0, 1, nU, 2, .arg, some 7⟩ = some 1 := by
  decide

/-- ```
CONFIGURATION Conf TASK Fast (…); PROGRAM Inst WITH Fast : Main; END_CONFIGURATION
PROGRAM Main END_PROGRAM
``` -/
def cfgP : Project :=
  { tails := [13],
    scopes := [⟨0, 0⟩, ⟨0, 3⟩],
    decls := [⟨0, 0, 0, .cfg, nConf, none⟩, ⟨1, 0, 1, .task, nFast, none⟩, ⟨2, 0, 1, .inst, nInst, none⟩,
              ⟨3, 0, 0, .prog, nMain, none⟩],
    occs := [⟨0, 14, nConf, 0, .decl, some 0⟩, ⟨0, 6, nFast, 0, .decl, some 1⟩, ⟨0, 14, nInst, 0, .decl, some 2⟩,
             ⟨0, 6, nFast, 0, .ctask, some 1⟩, ⟨0, 3, nMain, 0, .cprog, none⟩, ⟨0, 29, nMain, 2, .decl, some 3⟩] }

/-- **Program configuration (regression witness of the repaired C16-missed-ctask / C16-missed-cprog).**
Renaming the TASK `Fast` edits `WITH Fast` too, renaming the PROGRAM `Main` edits the program type of
the configuration too; both renames satisfy the guards, so every binding is kept.  (Before the repair
only the declarations were edited: “unknown task 'Fast'”, “unknown program type for 'Inst'”.) -/
theorem c16_program_configuration_renamed :
    wf cfgP = true ∧ noDupScope cfgP = true ∧
    rename cfgP 0 24 nU = some [⟨0, 24, 28⟩, ⟨0, 52, 56⟩] ∧
    noClash cfgP ⟨1, 0, 1, .task, nFast, none⟩ nU = true ∧ noBlind cfgP ⟨1, 0, 1, .task, nFast, none⟩ = true ∧
    rename cfgP 0 92 nU = some [⟨0, 59, 63⟩, ⟨0, 92, 96⟩] ∧
    noClash cfgP ⟨3, 0, 0, .prog, nMain, none⟩ nU = true ∧ noBlind cfgP ⟨3, 0, 0, .prog, nMain, none⟩ = true := by
  decide

/-- `PROGRAM Main VAR x : DINT; END_VAR  X := x; END_PROGRAM` (one use spelled `X`) -/
def mixP : Project :=
  { tails := [13],
    scopes := [⟨0, 0⟩],
    decls := [⟨0, 0, 0, .prog, nMain, none⟩, ⟨1, 0, 1, .var, nX, none⟩],
    occs := [⟨0, 8, nMain, 1, .decl, some 0⟩, ⟨0, 5, nX, 1, .decl, some 1⟩, ⟨0, 17, [88], 1, .ref, none⟩,
             ⟨0, 4, nX, 1, .ref, none⟩] }

/-- **Exact reversibility needs uniform spelling.**  With one use written `X`, renaming `x` to `u` and
back to `x` keeps every binding (`noClash`, `noBlind` hold) but does not restore the text: no rename
that replaces whole identifiers could, the spelling `X` is lost. -/
theorem c16_counterexample_case_variants_not_reversible :
    ∃ P d n od, wf P = true ∧ noDupScope P = true ∧ noClash P d n = true ∧ noBlind P d = true ∧
      renameOcc P od n = some (applyRename P d n) ∧
      ∃ P'', renameOcc (applyRename P d n) (renameOccName P d n od) d.name = some P'' ∧ P'' ≠ P :=
  ⟨mixP, ⟨1, 0, 1, .var, nX, none⟩, nU, ⟨0, 5, nX, 1, .decl, some 1⟩, by decide, by decide, by decide, by decide,
   by decide, _, rfl, by decide⟩

end witnesses

/-! ## non-vacuity of the guarded theorems -/

/-- the guards hold for a fresh name: renaming the global `g` of `capP` to `u` -/
example : wf capP = true ∧ noDupScope capP = true ∧
    renameTarget capP capDeclG nU = some ⟨1, 0, 0, .var, nG, none⟩ ∧
    noClash capP ⟨1, 0, 0, .var, nG, none⟩ nU = true ∧ noBlind capP ⟨1, 0, 0, .var, nG, none⟩ = true ∧
    uniform capP ⟨1, 0, 0, .var, nG, none⟩ = true ∧
    validIdent nG = true ∧ reserved nG = false := by decide

/-- … and the guards are exactly what fails on the capture witness -/
example : noClash capP ⟨1, 0, 0, .var, nG, none⟩ nX = false := by decide

/-- … `noBlind` can still fail: a name reference (NameRef) that denotes a TYPE symbol is not found by the
type-reference search (`FUNCTION_BLOCK Foo … END_FUNCTION_BLOCK  PROGRAM Main … Foo … END_PROGRAM`) -/
example : noBlind
    { tails := [13], scopes := [⟨0, 0⟩, ⟨0, 1⟩],
      decls := [⟨0, 0, 0, .fb, nFoo, none⟩, ⟨1, 0, 0, .prog, nMain, none⟩],
      occs := [⟨0, 15, nFoo, 1, .decl, some 0⟩, ⟨0, 30, nMain, 2, .decl, some 1⟩, ⟨0, 5, nFoo, 2, .ref, none⟩] }
    ⟨0, 0, 0, .fb, nFoo, none⟩ = false := by decide

/-- `c16_reference_search_complete` / `c16_noBlind_named_argument_and_configuration` are not vacuous: the
named argument of `argP` denotes the parameter and is reported -/
example : isType DKind.param = false ∧ refsTo argP ⟨1, 0, 1, .param, nK, none⟩ ⟨0, 1, nK, 2, .arg, some 7⟩ = true ∧
    refsTo cfgP ⟨1, 0, 1, .task, nFast, none⟩ ⟨0, 6, nFast, 0, .ctask, some 1⟩ = true ∧
    refsTo cfgP ⟨3, 0, 0, .prog, nMain, none⟩ ⟨0, 3, nMain, 0, .cprog, none⟩ = true := by decide

/-- `c16_edits_wf` / `c16_gate` are about accepted renames; here is one with two edits -/
example : rename capP 0 30 nU = some [⟨0, 30, 31⟩, ⟨0, 106, 107⟩] := by decide

/-- `c16_refuses_declaring_scope_conflict` applies: renaming `x` of `argP`'s … (same scope clash) -/
example : renameOcc argP ⟨0, 5, nR, 2, .decl, some 3⟩ nMain = some (applyRename argP ⟨3, 0, 2, .var, nR, none⟩ nMain) ∧
    renameOcc capP capDeclG nMain = none := by decide

/-- `c16_target_partial`: the member-access base exception is real — at a plain reference the target is the binding -/
example : binding capP ⟨0, 4, nG, 2, .ref, none⟩ = some ⟨1, 0, 0, .var, nG, none⟩ ∧
    isBase capP ⟨0, 4, nG, 2, .ref, none⟩ = false := by decide

end TrustVerif.C16
