import TrustVerif.Lemmas.C16

namespace TrustVerif.C16

theorem c16_stub : True := trivial

end TrustVerif.C16
