import TrustVerif.Lemmas.C17

/-!
# C17 — the debugger is transparent and never wedges the runtime

Property theorems only.  `Model/C17.lean` mirrors `DebugControl` (`apply_action`, the breakpoint
calls, `on_statement_inner` split at its `cvar.wait`) as a labelled transition system `step` whose
labels are the mutex-protected sections; `Reachable` quantifies over every interleaving of the
cycle thread (`run`, `wake`) with the controller (`act`, `pauseEntry`, `setBps`, `clearBps`,
`enqueue`), for every program (`Prog`: any sequence of statements with any locations, call depths
and task switches).
-/
namespace TrustVerif.C17

/-! ## "every continue or step resumes execution, so no command sequence deadlocks the cycle" -/

/-- **No wedge.**  In *any* state in which the cycle thread sleeps inside the hook, each of
Continue / StepIn / StepOver / StepOut (any thread argument) calls `notify_all` in its critical
section, and the woken thread leaves the hook: it executes the statement it was parked on and no
stop is produced by the wake-up. -/
theorem c17_no_wedge {M W : Type} (p : Prog M W) (s : Sys M W) (loc : Option Loc)
    (hw : s.rt = .waiting loc) (a : Action) (ha : a.isResume = true) :
    (step p s (.act a)).notified = true ∧
    (step p (step p s (.act a)) .wake).rt = .idle ∧
    (step p (step p s (.act a)) .wake).pc = s.pc + 1 ∧
    (step p (step p s (.act a)) .wake).d.stops = s.d.stops := by
  obtain ⟨h1, _, h3, h4, _⟩ := applyAction_resume_mode s.d a ha
  simp [step, hw, h3, hookLoop_running _ loc h1, h4]

example : (Action.stepOver (some 2)).isResume = true := rfl

/-- **No lost wake-up.**  In every reachable state (every interleaving), a cycle thread that sleeps
without a notification outstanding is in a state in which the wait loop *has* to sleep (`Paused`,
this thread is the target, no stop pending) — so it never sleeps through a resume — and a spurious
wake-up in that state changes nothing. -/
theorem c17_no_lost_wakeup {M W : Type} (p : Prog M W) (m0 : M) (s : Sys M W)
    (hr : Reachable p m0 s) (loc : Option Loc) (hw : s.rt = .waiting loc) (hn : s.notified = false) :
    s.d.mode = .paused ∧ isTarget s.d = true ∧ s.d.pendingStop = none ∧ step p s .wake = s := by
  have hinv := reachable_inv p m0 s hr
  obtain ⟨h1, h2⟩ := hinv.wait_sleep loc hw hn
  have h3 := hinv.wait_target loc hw h1 h2
  refine ⟨h1, h3, h2, ?_⟩
  have hl : hookLoop s.d loc = (s.d, false) := by
    simp [hookLoop, consumePending, h1, h2, h3]
  cases s
  simp_all [step]

/-! ## "every time execution stops exactly one stop notification with the stop location is produced" -/

/-- **One stop per stop, entering.**  In every reachable state, when the cycle thread calls the hook
for a statement it either parks — and then exactly one stop was appended, carrying the statement's
location and the current thread — or it comes back, executes the statement, and no stop was
produced. -/
theorem c17_one_stop_enter {M W : Type} (p : Prog M W) (m0 : M) (s : Sys M W)
    (hr : Reachable p m0 s) (hi : s.rt = .idle) (loc : Option Loc) (depth : Nat) (ctx : Bool)
    (hit : p.item s.pc = .stmt loc depth ctx) :
    ((step p s .run).rt = .waiting loc ∧ (step p s .run).pc = s.pc ∧ (step p s .run).mem = s.mem ∧
        ∃ r g, (step p s .run).d.stops = s.d.stops ++ [⟨r, loc, s.d.currentThread, g⟩])
    ∨ ((step p s .run).rt = .idle ∧ (step p s .run).pc = s.pc + 1 ∧
        (step p s .run).mem = p.exec s.pc s.mem ∧ (step p s .run).d.stops = s.d.stops) := by
  have hinv := reachable_inv p m0 s hr
  rcases onStatement_cases s.d loc depth ctx (hinv.idle_pending hi) with
    ⟨h1, _, _, _, r, g, h5, _⟩ | ⟨h1, h2, _⟩
  · left; simp [step, hi, hit, h1, h5]
  · right; simp [step, hi, hit, h1, h2]

/-- **One stop per stop, waking.**  A wake-up of the parked thread (in any state) either leaves the
hook without a stop, or parks again at the same statement having produced at most one stop — the
one that was pending — with the location of the statement it is parked on. -/
theorem c17_one_stop_wake {M W : Type} (p : Prog M W) (s : Sys M W) (loc : Option Loc)
    (hw : s.rt = .waiting loc) :
    ((step p s .wake).rt = .idle ∧ (step p s .wake).pc = s.pc + 1 ∧
        (step p s .wake).d.stops = s.d.stops)
    ∨ ((step p s .wake).rt = .waiting loc ∧ (step p s .wake).pc = s.pc ∧
        ((step p s .wake).d.stops = s.d.stops
         ∨ ∃ r, s.d.pendingStop = some r ∧
             (step p s .wake).d.stops = s.d.stops ++ [⟨r, loc, s.d.currentThread, none⟩])) := by
  rcases hookLoop_cases s.d loc with ⟨k1, k2, _⟩ | ⟨k1, _, _, _, _, _, _, k | ⟨r, k, k'⟩⟩
  · left; simp [step, hw, k1, k2]
  · right; simp [step, hw, k1, k.2]
  · right; simp [step, hw, k1, k, k']

/-- A parked thread re-announces a stop only if it was notified since it went to sleep, i.e. only
after a resume action followed by a fresh pause request (reachable states, all interleavings). -/
theorem c17_restop_only_after_resume {M W : Type} (p : Prog M W) (m0 : M) (s : Sys M W)
    (hr : Reachable p m0 s) (loc : Option Loc) (hw : s.rt = .waiting loc)
    (hne : (step p s .wake).d.stops ≠ s.d.stops) : s.notified = true := by
  cases hn : s.notified
  · exact absurd (by rw [(c17_no_lost_wakeup p m0 s hr loc hw hn).2.2.2]) hne
  · rfl

/-- Controller calls never produce a stop themselves and never move the cycle thread or the
program state. -/
theorem c17_controller_silent {M W : Type} (p : Prog M W) (s : Sys M W) (l : Label W)
    (hl : l ≠ .run ∧ l ≠ .wake) :
    (step p s l).d.stops = s.d.stops ∧ (step p s l).rt = s.rt ∧ (step p s l).pc = s.pc ∧
    (step p s l).mem = s.mem := by
  cases l with
  | run => exact absurd rfl hl.1
  | wake => exact absurd rfl hl.2
  | act a => exact ⟨(applyAction_depths s.d a).2.2.2, rfl, rfl, rfl⟩
  | pauseEntry =>
    refine ⟨?_, rfl, rfl, rfl⟩
    rcases pauseEntry_cases s.d with ⟨_, he⟩ | ⟨hm, _⟩
    · simp [step, he]
    · simp [step, pauseEntry, hm]
  | setBps f bps => exact ⟨rfl, rfl, rfl, rfl⟩
  | clearBps => exact ⟨rfl, rfl, rfl, rfl⟩
  | enqueue w => exact ⟨rfl, rfl, rfl, rfl⟩

/-! ## "step-over and step-out never stop at a call depth greater than the one they were issued from" -/

/-- The depth a step is "issued from" (`stepTargetDepth`, what `apply_action` reads from
`last_call_depths`) is, whenever the cycle thread is parked (reachable states), the call depth of
the statement it is parked on. -/
theorem c17_step_origin {M W : Type} (p : Prog M W) (m0 : M) (s : Sys M W) (hr : Reachable p m0 s)
    (loc : Option Loc) (hw : s.rt = .waiting loc) :
    stepTargetDepth s.d s.d.currentThread = (p.item s.pc).depth := by
  obtain ⟨depth, ctx, h1, h2, h3⟩ := (reachable_inv p m0 s hr).wait_item loc hw
  cases hc : s.d.currentThread with
  | none => simp [stepTargetDepth, h1, h2, Item.depth]
  | some t => simp [stepTargetDepth, h3 t hc, h1, Item.depth]

/-- **Step over.**  After `StepOver` (any thread argument) issued in any reachable state, along
every continuation — any interleaving of the program with breakpoint changes, pauses and continues,
until the next step command — every stop with reason `Step` happens at a call depth `≤` the depth
the step was issued from. -/
theorem c17_step_over_depth {M W : Type} (p : Prog M W) (m0 : M) (s : Sys M W)
    (hr : Reachable p m0 s) (th : Option Nat) (ls : List (Label W))
    (hns : ∀ l ∈ ls, l.isStepAct = false) :
    ∀ e ∈ stopEvents p (step p s (.act (.stepOver th))) ls, e.1.reason = .step →
      e.2 ≤ stepTargetDepth s.d (orCurrent s.d th) := by
  apply stopEvents_step_bound p m0 ls hns _ _ (reachable_step hr _)
  intro x hx
  simp [step, applyAction, armStep] at hx
  simp [hx]

/-- **Step out.**  Same for `StepOut`, with the bound one less than the issuing depth (0 at top
level, where step-out behaves like step-over). -/
theorem c17_step_out_depth {M W : Type} (p : Prog M W) (m0 : M) (s : Sys M W)
    (hr : Reachable p m0 s) (th : Option Nat) (ls : List (Label W))
    (hns : ∀ l ∈ ls, l.isStepAct = false) :
    ∀ e ∈ stopEvents p (step p s (.act (.stepOut th))) ls, e.1.reason = .step →
      e.2 ≤ stepTargetDepth s.d (orCurrent s.d th) - 1 := by
  apply stopEvents_step_bound p m0 ls hns _ _ (reachable_step hr _)
  intro x hx
  simp [step, applyAction, armStep] at hx
  simp [hx]

example : (Label.act (.pause none) : Label Unit).isStepAct = false := rfl

/-! ## "step-in stops at the very next statement"; "the sequence of program states is the same as in an undebugged run" -/
/-- **Step in stops at the very next statement.**  In any state where the cycle thread is parked
and the mode is `Paused` (the debugger shows a stop), `StepIn` for the stopped thread (explicitly or
by default) makes the thread execute the statement it is parked on, and the hook of the very next
statement of that thread parks again with exactly one `Step` stop at that statement's location —
whatever its call depth (so it enters calls). -/
theorem c17_step_in_next {M W : Type} (p : Prog M W) (s : Sys M W) (loc : Option Loc)
    (hw : s.rt = .waiting loc) (hm : s.d.mode = .paused)
    (th : Option Nat) (hth : th = none ∨ th = s.d.currentThread)
    (l : Loc) (depth : Nat) (ctx : Bool) (hnext : p.item (s.pc + 1) = .stmt (some l) depth ctx) :
    (step p (step p s (.act (.stepIn th))) .wake).rt = .idle ∧
    (step p (step p s (.act (.stepIn th))) .wake).pc = s.pc + 1 ∧
    (step p (step p (step p s (.act (.stepIn th))) .wake) .run).rt = .waiting (some l) ∧
    (step p (step p (step p s (.act (.stepIn th))) .wake) .run).pc = s.pc + 1 ∧
    (step p (step p (step p s (.act (.stepIn th))) .wake) .run).d.stops =
      s.d.stops ++ [⟨.step, some l, s.d.currentThread, none⟩] := by
  obtain ⟨h1, _, h3, _, _⟩ := applyAction_resume_mode s.d (.stepIn th) rfl
  obtain ⟨k1, k2⟩ := stepIn_then_hook s.d th hth hm l depth ctx
  have hwake : step p (step p s (.act (.stepIn th))) .wake =
      { s with d := (applyAction s.d (.stepIn th)).1, rt := .idle, notified := false, pc := s.pc + 1,
               mem := p.exec s.pc s.mem } := by
    simp [step, hw, hookLoop_running _ loc h1]
  rw [hwake]
  simp [step, hnext, k1, k2]

/-- **Transparency.**  Along every interleaving in which the user queues no write, the program
state is a function of the number of executed items only: it is the state the undebugged run has
after the same number of items.  (Breakpoints, pauses, steps, waits and wake-ups never touch it.) -/
theorem c17_transparent {M W : Type} (p : Prog M W) (m0 : M) (ls : List (Label W))
    (hnw : ∀ l ∈ ls, l.isEnqueue = false) :
    (exec p (Sys.init m0) ls).mem = undebugged p m0 (exec p (Sys.init m0) ls).pc := by
  suffices h : ∀ (s : Sys M W), Reachable p m0 s → s.queue = [] → s.mem = undebugged p m0 s.pc →
      (exec p s ls).mem = undebugged p m0 (exec p s ls).pc from h _ Reachable.init rfl rfl
  induction ls with
  | nil => intro s _ _ hmem; exact hmem
  | cons l ls ih =>
    intro s hr hq hmem
    have hl : l.isEnqueue = false := hnw l (by simp)
    refine ih (fun l' hl' => hnw l' (by simp [hl'])) (step p s l) (reachable_step hr l) ?_ ?_
    · cases l <;> simp_all [step, Label.isEnqueue] <;> (repeat' split) <;> simp_all
    · cases l with
      | run =>
        cases hrt : s.rt with
        | waiting loc => simpa [step, hrt] using hmem
        | idle =>
          cases hit : p.item s.pc with
          | stmt loc depth ctx =>
            simp only [step, hrt, hit]
            split
            · simp [undebugged, hit, hmem]
            · simpa using hmem
          | thread t => simp [step, hrt, hit, undebugged, hmem]
          | boundary => simp [step, hrt, hit, undebugged, hmem, hq]
      | wake =>
        cases hrt : s.rt with
        | idle => simpa [step, hrt] using hmem
        | waiting loc =>
          obtain ⟨depth, ctx, hit, _⟩ := (reachable_inv p m0 s hr).wait_item loc hrt
          simp only [step, hrt]
          split
          · simp [undebugged, hit, hmem]
          · simpa using hmem
      | act a => exact hmem
      | pauseEntry => exact hmem
      | setBps f bps => exact hmem
      | clearBps => exact hmem
      | enqueue w => exact hmem

/-- Whatever the interleaving (writes included), the program state changes only by executing the
next statement or, at a cycle boundary, by applying the queued user writes. -/
theorem c17_writes_only_at_boundary {M W : Type} (p : Prog M W) (s : Sys M W) (l : Label W) :
    (step p s l).mem = s.mem
    ∨ ((step p s l).mem = p.exec s.pc s.mem ∧ (step p s l).pc = s.pc + 1)
    ∨ (p.item s.pc = .boundary ∧ l = .run ∧
        (step p s l).mem = s.queue.foldl (fun m w => p.applyW w m) s.mem) := by
  cases l with
  | run =>
    cases hrt : s.rt with
    | waiting loc => left; simp [step, hrt]
    | idle =>
      cases hit : p.item s.pc with
      | stmt loc depth ctx =>
        simp only [step, hrt, hit]
        split
        · right; left; simp
        · left; simp
      | thread t => left; simp [step, hrt, hit]
      | boundary => right; right; simp [step, hrt, hit]
  | wake =>
    cases hrt : s.rt with
    | idle => left; simp [step, hrt]
    | waiting loc =>
      simp only [step, hrt]
      split
      · right; left; simp
      · left; simp
  | act a => left; rfl
  | pauseEntry => left; rfl
  | setBps f bps => left; rfl
  | clearBps => left; rfl
  | enqueue w => left; rfl

/-! ## Non-vacuity: a concrete program and run reaching a parked state -/

/-- The hypotheses of the theorems above are satisfiable: a reachable state, parked at statement 1
(depth 1), mode `Paused`, with one stop announced. -/
example : Reachable demoProg 0 demoParked ∧ demoParked.rt = .waiting (some ⟨0, 10, 15⟩) ∧
    demoParked.d.mode = .paused ∧ demoParked.notified = false ∧ demoParked.pc = 1 ∧
    demoParked.d.stops = [⟨.pause, some ⟨0, 10, 15⟩, some 1, none⟩] :=
  ⟨reachable_exec _ _ _ _ Reachable.init, by decide, by decide, by decide, by decide, by decide⟩

/-- ... and from there StepOver really produces a `Step` stop at depth 1 ≤ 1 two statements later
(statement 2 is at depth 0 ≤ 1, so in fact at statement 2). -/
example : stopEvents demoProg (step demoProg demoParked (.act (.stepOver none))) [.wake, .run] =
    [(⟨.step, some ⟨0, 20, 25⟩, some 1, none⟩, 0)] := by decide

/-- A reachable state in which the cycle thread is outside the monitor, about to call the hook of a
statement (hypotheses of `c17_one_stop_enter`). -/
example : (Sys.init 0 : Sys Nat Unit).rt = .idle ∧
    demoProg.item (Sys.init 0 : Sys Nat Unit).pc = .stmt (some ⟨0, 0, 5⟩) 0 false := by decide

/-- `c17_restop_only_after_resume` is not vacuous: Continue then Pause before the thread woke up
makes it announce a second stop at the same statement — and it had been notified. -/
example :
    (step demoProg (exec demoProg demoParked [.act .continue_, .act (.pause none)]) .wake).d.stops.length = 2 ∧
    (exec demoProg demoParked [.act .continue_, .act (.pause none)]).notified = true ∧
    (exec demoProg demoParked [.act .continue_, .act (.pause none)]).rt = .waiting (some ⟨0, 10, 15⟩) := by
  decide

/-- `c17_step_in_next` on the concrete run: StepIn from statement 1 stops at statement 2. -/
example :
    (step demoProg (step demoProg (step demoProg demoParked (.act (.stepIn none))) .wake) .run).rt
      = .waiting (some ⟨0, 20, 25⟩) ∧ demoProg.item (demoParked.pc + 1) = .stmt (some ⟨0, 20, 25⟩) 0 false := by
  decide

/-- `c17_transparent` on a concrete interleaving with a pause, a step and a breakpoint edit: three
statements were executed and the program state says so. -/
example :
    (exec demoProg (Sys.init 0)
      [.run, .act (.pause none), .run, .setBps 0 [demoBp], .act (.stepOver none), .wake, .run,
       .act .continue_, .wake, .run]).mem = 4 ∧
    (exec demoProg (Sys.init 0)
      [.run, .act (.pause none), .run, .setBps 0 [demoBp], .act (.stepOver none), .wake, .run,
       .act .continue_, .wake, .run]).pc = 4 := by
  decide

/-! ## Second layer: the DAP adapter's stop filter (`trust-debug/src/adapter/stop.rs`, as of d5a9ac8)

Claim examined: "every runtime stop is either emitted to the client or the runtime has already been
resumed", as the state predicate `told`: whenever the runtime is parked for good and the coordinator
has drained the channel, the client received a `stopped` event after its last continue/step request.
`shouldEmitStop` mirrors `StopCoordinator::should_emit_stop` (with the `still_parked` input);
`astep` adds the stop channel, the `pause_expected` flag and the request handlers of
`run_control.rs`.  The stale-generation wedge (finding C17-adapter-stale-generation) is gone; one
residual window remains and is pinned down exactly. -/

/-- A `Step` stop is never dropped. -/
theorem c17_adapter_step_emitted (st : Stop) (pe : Bool) (gens : List (Nat × Nat)) (sp : Bool)
    (h : st.reason = .step) : (shouldEmitStop st pe gens sp).1 = true := by
  simp [shouldEmitStop, h]

/-- A `Pause`/`Entry` stop is emitted iff a pause was expected (and consumes the expectation). -/
theorem c17_adapter_pause_emitted_iff (st : Stop) (pe : Bool) (gens : List (Nat × Nat)) (sp : Bool)
    (h : st.reason = .pause ∨ st.reason = .entry) :
    (shouldEmitStop st pe gens sp).1 = pe ∧ (shouldEmitStop st pe gens sp).2 = false := by
  rcases h with h | h <;> simp [shouldEmitStop, h]

/-- A `Breakpoint` stop is emitted iff it carries a location and a generation and either that
generation is still current for the file or the runtime is still parked on this very stop. -/
theorem c17_adapter_breakpoint_emitted_iff (st : Stop) (pe : Bool) (gens : List (Nat × Nat)) (sp : Bool)
    (h : st.reason = .breakpoint) :
    (shouldEmitStop st pe gens sp).1 = true ↔
      ∃ l g, st.loc = some l ∧ st.gen = some g ∧ (alookup gens l.file = some g ∨ sp = true) := by
  cases hl : st.loc <;> cases hg : st.gen <;> simp [shouldEmitStop, h, hl, hg]

/-- Every stop flagged expected-or-not, *in any state*: whatever the filter drops while consuming the
`pause_expected` flag, the flag is `false` afterwards (also when a Breakpoint stop is dropped — this
is the ingredient of the residual window below). -/
theorem c17_adapter_flag_cleared (st : Stop) (pe : Bool) (gens : List (Nat × Nat)) (sp : Bool) :
    (shouldEmitStop st pe gens sp).2 = false := by
  unfold shouldEmitStop
  cases st.reason <;> simp
  cases st.loc <;> simp
  cases st.gen <;> simp

/-- **The fixed finding.**  The former witness (setBreakpoints; breakpoint hit; setBreakpoints for
the same file before the coordinator's turn; coordinator) now ends with the stop emitted and the
client told: the runtime is still parked on that very stop, so the stale generation no longer
drops it. -/
theorem c17_adapter_stale_generation_fixed :
    (aexec ASys.init
      [.reqSetBps 0 [demoBp], .hook (some ⟨0, 0, 10⟩) 0, .reqSetBps 0 [demoBp], .coord]).quiescentParked = true ∧
    (aexec ASys.init
      [.reqSetBps 0 [demoBp], .hook (some ⟨0, 0, 10⟩) 0, .reqSetBps 0 [demoBp], .coord]).emitted.length = 1 ∧
    (aexec ASys.init
      [.reqSetBps 0 [demoBp], .hook (some ⟨0, 0, 10⟩) 0, .reqSetBps 0 [demoBp], .coord]).clientStopped = true := by
  decide

/-- **Residual window (counterexample to the unguarded claim).**  A resume request is handled while
a Breakpoint stop is still unprocessed in the channel (the client resumes a stop it was never told
about), the stop goes stale, and a pause follows: breakpoint hit `Y`; step request (the thread is
not woken yet); pause request (`pause_expected := true`, Pause pending); setBreakpoints (`Y` stale);
the thread wakes and announces the Pause stop `X` at the same statement.  The coordinator drops `Y`
— correctly, the runtime was resumed after it — but that already cleared `pause_expected`, so it
drops `X` too: the runtime is parked for good on `X`, nothing was emitted, the client was never
told. -/
theorem c17_adapter_counterexample_residual :
    (aexec ASys.init
      [.reqSetBps 0 [demoBp], .hook (some ⟨0, 0, 10⟩) 0, .reqStep (.stepIn none), .reqPause,
       .reqSetBps 0 [demoBp], .wake, .coord, .coord]).quiescentParked = true ∧
    (aexec ASys.init
      [.reqSetBps 0 [demoBp], .hook (some ⟨0, 0, 10⟩) 0, .reqStep (.stepIn none), .reqPause,
       .reqSetBps 0 [demoBp], .wake, .coord, .coord]).d.stops.length = 2 ∧
    (aexec ASys.init
      [.reqSetBps 0 [demoBp], .hook (some ⟨0, 0, 10⟩) 0, .reqStep (.stepIn none), .reqPause,
       .reqSetBps 0 [demoBp], .wake, .coord, .coord]).emitted = [] ∧
    (aexec ASys.init
      [.reqSetBps 0 [demoBp], .hook (some ⟨0, 0, 10⟩) 0, .reqStep (.stepIn none), .reqPause,
       .reqSetBps 0 [demoBp], .wake, .coord, .coord]).clientStopped = false := by
  decide

/-- Hence the adapter-level claim still does not hold for *all* interleavings. -/
theorem c17_adapter_counterexample : ¬ ∀ ls : List ALabel, (aexec ASys.init ls).told = true := by
  intro h
  have := h [.reqSetBps 0 [demoBp], .hook (some ⟨0, 0, 10⟩) 0, .reqStep (.stepIn none), .reqPause,
    .reqSetBps 0 [demoBp], .wake, .coord, .coord]
  revert this
  decide

/-- **Partial theorem (adapter layer).**  Under the explicit, decidable guard `runOk` — no
continue/step request is handled while a Breakpoint stop is still waiting in the stop channel, i.e.
the client does not resume a breakpoint stop it has not been told about; breakpoint changes are
*unrestricted* (any files, any moment) — the claim holds for every interleaving of hook calls,
wake-ups, pause / continue / step requests, breakpoint changes and coordinator turns: whenever the
runtime is parked for good and the coordinator has drained the channel, the client has received a
`stopped` event since its last continue/step request. -/
theorem c17_adapter_told_partial (ls : List ALabel) (hok : ASys.init.runOk ls = true) :
    (aexec ASys.init ls).told = true :=
  told_of_ainv _ (ainv_exec ls _ ainv_init hok)

/-- The guard admits the former witness of the fixed finding (setBreakpoints between hit and
coordinator) … -/
example : ASys.init.runOk
    [.reqSetBps 0 [demoBp], .hook (some ⟨0, 0, 10⟩) 0, .reqSetBps 0 [demoBp], .coord] = true := by
  decide

/-- … and ordinary sessions that resume after being told … -/
example : ASys.init.runOk
    [.reqSetBps 0 [demoBp], .hook (some ⟨0, 0, 10⟩) 0, .coord, .reqContinue, .wake, .reqPause,
     .hook (some ⟨0, 12, 20⟩) 0, .coord] = true ∧
    (aexec ASys.init
      [.reqSetBps 0 [demoBp], .hook (some ⟨0, 0, 10⟩) 0, .coord, .reqContinue, .wake, .reqPause,
       .hook (some ⟨0, 12, 20⟩) 0, .coord]).quiescentParked = true := by
  decide

/-- … and it is exactly what the residual counterexample violates (at its step request). -/
example : ASys.init.runOk
    [.reqSetBps 0 [demoBp], .hook (some ⟨0, 0, 10⟩) 0, .reqStep (.stepIn none), .reqPause,
     .reqSetBps 0 [demoBp], .wake, .coord, .coord] = false := by
  decide

/-! ## Third surface: expressions the debugger evaluates on the live program (watch expressions,
breakpoint conditions, logpoint fragments, assignment targets) — "the sequence of program states is
the same as in an undebugged run unless the user explicitly writes a value"

`hasSideEffects` mirrors `expression_has_side_effects` (harness/parse.rs), the guard of
`parse_debug_expression` / `parse_debug_lvalue`.  Proved here: what the guard accepts contains no call
outside the allow-list, anywhere.  That an allow-listed call evaluates without changing program
state is not proved; the check tests it on the real runtime (state at every stop and at the end with
the accepted expression registered as watch, condition and logpoint = undebugged run). -/

/-- **Accepted ⇒ no call to a non-allow-listed or unresolvable callee anywhere in the expression**
(in any argument position, at any nesting depth, behind any operator), for every expression and
every allow-list. -/
theorem c17_expr_accepted_only_allowed_calls (allowed : String → Bool) (e : DExpr)
    (hacc : hasSideEffects allowed e = false) (t : Option String) (hc : HasCall e t) :
    ∃ n, t = some n ∧ allowed n = true := by
  have hm := mem_calls_of_hasCall e t hc
  simp only [hasSideEffects, List.any_eq_false] at hacc
  have := hacc t hm
  cases t with
  | none => simp [offending] at this
  | some n => exact ⟨n, rfl, by simpa [offending] using this⟩

/-- **Rejected ⇒ there is a reason**: the expression really contains a call whose callee is
unresolvable or not on the allow-list (the guard rejects nothing else, e.g. no call-free expression). -/
theorem c17_expr_rejected_has_offending_call (allowed : String → Bool) (e : DExpr)
    (hrej : hasSideEffects allowed e = true) :
    ∃ t, HasCall e t ∧ offending allowed t = true := by
  simp only [hasSideEffects, List.any_eq_true] at hrej
  obtain ⟨t, hm, ho⟩ := hrej
  exact ⟨t, hasCall_of_mem_calls e t hm, ho⟩

/-- **On the real allow-list** (as of 140f0e8): every call, anywhere, of an accepted expression is a
call of a pure standard function of `is_pure_stdlib_name` or of a type conversion — functions
without output or in-out parameters.  (The former finding C17-split-outputs-allowlisted: `SPLIT_*`
were allow-listed although they write their outputs; no guard is needed any more.) -/
theorem c17_expr_accepted_pure_or_conversion (e : DExpr)
    (hacc : hasSideEffects isAllowedWatchCall e = false) (t : Option String) (hc : HasCall e t) :
    ∃ n, t = some n ∧ (Gen.pureNames.contains n.toUpper = true ∨ isConversionName n.toUpper = true) := by
  obtain ⟨n, rfl, hn⟩ := c17_expr_accepted_only_allowed_calls isAllowedWatchCall e hacc t hc
  refine ⟨n, rfl, ?_⟩
  simpa [isAllowedWatchCall] using hn

/-- Regression of the fixed finding, in the model: a `SPLIT_*` name is neither a pure standard
function name nor a conversion name pattern the guard could accept by the pure list. -/
example : Gen.pureNames.contains "SPLIT_DATE" = false := by decide

/-- Non-vacuity (with the allow-list `ABS`, `MAX`, `INT_TO_DINT`; the real, generated allow-list is
what the driver runs): `ABS(MAX(x, INT_TO_DINT(y)))` is accepted and contains three calls;
`ABS(Bump(x))`, `MAX(x, Bump(y))` and `ABS(x) + Bump(y)` are rejected (the shapes a first-call-only
check lets through); an unresolvable callee is rejected. -/
example :
    hasSideEffects demoAllowed
      (.call (some "ABS") [.call (some "MAX") [.leaf, .call (some "INT_TO_DINT") [.leaf]]]) = false ∧
    hasSideEffects demoAllowed (.call (some "ABS") [.call (some "Bump") [.leaf]]) = true ∧
    hasSideEffects demoAllowed (.call (some "MAX") [.leaf, .call (some "Bump") [.leaf]]) = true ∧
    hasSideEffects demoAllowed
      (.node [.call (some "ABS") [.leaf], .call (some "Bump") [.leaf]]) = true ∧
    hasSideEffects demoAllowed (.call (some "ABS") [.call none [.leaf]]) = true := by
  simp [hasSideEffects, DExpr.calls, callsList, offending, demoAllowed]

end TrustVerif.C17
