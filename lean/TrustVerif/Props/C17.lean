import TrustVerif.Lemmas.C17

namespace TrustVerif.C17

/-- placeholder -/
theorem c17_placeholder : (DState.init).mode = .running := rfl

end TrustVerif.C17
