import TrustVerif.Lemmas.C18

/-!
# C18 — the control endpoint executes a request only with a sufficient role

Property theorems only.  `Model/C18.lean` mirrors `handle_request_line` / `handle_request_value` /
`resolve_request_role` / `required_role_for_control_request` / the handler dispatch and the pairing
store; the permission table, the config.set key tables, the debug-request list and the dispatcher's
names are `Gen.*`, regenerated from the Rust sources on every run, so the `decide` theorems below are
re-checked by the kernel against the current tables each time.

`step ep line = (ep', out)`: `out.reply` is the reply class, `out.fx` the probes of the running system
that change, `ep'` the endpoint's own gates (token, debug switch, control mode, pairing store).
"Changes nothing" is stated up to `Endpoint.pruned`: every access to the pairing store first drops
tokens whose expiry has passed, which no request could have used any more.
-/
namespace TrustVerif.C18
open Gen

/-! ## Clause 1 — a request is performed only with a sufficient role -/

/-- **effect(r, c) ≠ none ⇒ role(c) ≥ required(r)**, for every endpoint state, every line (any JSON,
any type, any parameters) and every credential.  If a line changes any probe, changes the endpoint's own
gates, or is answered with anything but a constant refusal, then it parsed as a request whose credential
maps to a role at least as high as the role required for its type and parameters; moreover the debug
gate was open for it and a handler exists. -/
theorem c18_effect_needs_role (ep : Endpoint) (l : Line)
    (h : (step ep l).2.fx ≠ [] ∨ (step ep l).2.reply.carriesData = true ∨
         (step ep l).1.pruned ≠ ep.pruned) :
    ∃ r role, l = .request r ∧ credentialRole ep r.auth = some role ∧
      (requiredRole r.type r.params).rank ≤ role.rank ∧
      (isDebugRequest r.type = true → ep.debugEnabled = true) ∧
      r.type ∈ dispatched := by
  cases l with
  | request r =>
    rcases handleRequest_cases ep r with ⟨⟨h1, h2, h3⟩, _⟩ | ⟨role, m, hd, hc, hr, hdbg, hf, _⟩
    · rcases h with h | h | h
      · exact absurd h1 h
      · simp [step, h2] at h
      · exact absurd h3 h
    · exact ⟨r, role, rfl, hc, hr, hdbg, (findHandler_isSome_iff _).1 (by simp [hf])⟩
  | notJson => simp [step, Reply.carriesData] at h
  | notRequest => simp [step, Reply.carriesData] at h

/-- The same for whole histories (any interleaving of lines, clock ticks and runtime restarts that re-open
the pairing store from its file): every output that shows an
effect or carries data belongs to a request that had a sufficient role in the state it arrived in. -/
theorem c18_history_effect_needs_role (evs : List Event) (ep : Endpoint) :
    ∀ o ∈ (run ep evs).2, (o.fx ≠ [] ∨ o.reply.carriesData = true) →
      ∃ ep' r role, credentialRole ep' r.auth = some role ∧
        (requiredRole r.type r.params).rank ≤ role.rank ∧ o = (step ep' (.request r)).2 := by
  induction evs generalizing ep with
  | nil => simp [run]
  | cons e es ih =>
    intro o ho hfx
    cases e with
    | tick dt =>
      simp only [run, stepEvent, Option.toList, List.nil_append] at ho
      exact ih _ o ho hfx
    | reload =>
      simp only [run, stepEvent, Option.toList, List.nil_append] at ho
      exact ih _ o ho hfx
    | line l =>
      simp only [run, stepEvent, Option.toList, List.cons_append, List.nil_append,
        List.mem_cons] at ho
      rcases ho with rfl | ho
      · have := c18_effect_needs_role ep l (by
          rcases hfx with h | h
          · exact Or.inl h
          · exact Or.inr (Or.inl h))
        obtain ⟨r, role, rfl, hc, hr, _, _⟩ := this
        exact ⟨ep, r, role, hc, hr, rfl⟩
      · exact ih _ o ho hfx

/-! ## Clause 2 — with a token configured, no valid credential ⇒ nothing changes, nothing is revealed -/

/-- With an auth token configured, "no valid credential" means exactly: not the token itself and not a
live (enabled, unexpired) pairing token. -/
theorem c18_credential_none_iff (ep : Endpoint) (t : String) (htok : ep.authToken = some t)
    (auth : Option String) :
    credentialRole ep auth = none ↔
      auth ≠ some t ∧
      ∀ tok store, auth = some tok → ep.pairing = some store →
        lookupToken (prune ep.now store.tokens) tok = none := by
  rw [credentialRole_token ep t htok]
  by_cases ha : auth = some t
  · simp [ha]
  · simp only [ha, if_false, ne_eq, not_false_eq_true, true_and]
    cases auth with
    | none => simp
    | some tok =>
      cases hp : ep.pairing with
      | none => simp
      | some store => simp

/-- A request without a valid token or pairing token gets the bare `unauthorized` error (it carries only
the caller's own request id), changes no probe and leaves the endpoint as it was. -/
theorem c18_unauth_silent (ep : Endpoint) (t : String) (_htok : ep.authToken = some t) (r : Request)
    (hcred : credentialRole ep r.auth = none) :
    (step ep (.request r)).2 = ⟨.unauthorized r.id, []⟩ ∧
    (step ep (.request r)).1.pruned = ep.pruned := by
  rcases handleRequest_cases ep r with ⟨⟨h1, _, h3⟩, hc⟩ | ⟨role, _, _, hc, _⟩
  · rcases hc with ⟨hr, _⟩ | ⟨role, hc, _⟩
    · refine ⟨?_, h3⟩
      show (handleRequest ep r).2 = _
      cases hh : (handleRequest ep r).2 with
      | mk reply fx =>
        rw [hh] at h1 hr
        simp only at h1 hr
        rw [h1, hr]
    · rw [hcred] at hc; cases hc
  · rw [hcred] at hc; cases hc

/-- **A restart changes no credential**: re-opening the pairing store from its file keeps what every
credential maps to (a revoked or expired token stays refused, a live one keeps its role) and keeps the
pairing list; only a pending pairing code is lost. -/
theorem c18_reload_preserves_credentials (ep : Endpoint) (auth : Option String) :
    credentialRole ep.reload auth = credentialRole ep auth ∧ ep.reload.pairingView = ep.pairingView ∧
    ep.reload.authToken = ep.authToken ∧ ep.reload.debugEnabled = ep.debugEnabled :=
  ⟨credentialRole_reload ep auth, pairingView_reload ep, rfl, rfl⟩

/-- Over any history: while a token is configured, lines that are malformed or carry no valid credential
— however many, interleaved with any passage of time and any number of restarts — never change a probe,
never receive data, and leave the endpoint exactly where the environment's events alone (`envOnly`:
the ticks and reloads of the same history, without a single line) would have left it. -/
theorem c18_history_unauth_silent (ep : Endpoint) (t : String) (htok : ep.authToken = some t)
    (evs : List Event)
    (h : ∀ e ∈ evs, ∀ r, e = .line (.request r) → credentialRole ep r.auth = none) :
    (run ep evs).1.pruned = (run ep (envOnly evs)).1.pruned ∧
    ∀ o ∈ (run ep evs).2, o.fx = [] ∧ o.reply.carriesData = false := by
  suffices H : ∀ (evs : List Event) (cur cur' : Endpoint), cur.pruned = cur'.pruned →
      cur'.authToken = some t →
      (∀ e ∈ evs, ∀ r, e = .line (.request r) → credentialRole cur' r.auth = none) →
      (run cur evs).1.pruned = (run cur' (envOnly evs)).1.pruned ∧
      ∀ o ∈ (run cur evs).2, o.fx = [] ∧ o.reply.carriesData = false by
    exact H evs ep ep rfl htok h
  intro evs
  induction evs with
  | nil =>
    intro cur cur' hinv _ _
    simpa [run, envOnly] using hinv
  | cons e es ih =>
    intro cur cur' hinv htok' hun
    have hun' : ∀ e ∈ es, ∀ r, e = .line (.request r) → credentialRole cur' r.auth = none :=
      fun e he => hun e (List.mem_cons_of_mem _ he)
    have hnow : cur.now = cur'.now := by
      have := congrArg Endpoint.now hinv
      simpa [pruned_now] using this
    cases e with
    | tick dt =>
      have hinv' := pruned_later hinv (cur.now + dt) (Nat.le_add_right _ _)
      have hun'' : ∀ e ∈ es, ∀ r, e = .line (.request r) →
          credentialRole { cur' with now := cur'.now + dt } r.auth = none :=
        fun e he r hr =>
          credentialRole_none_later cur' t htok' r.auth (hun' e he r hr) _ (Nat.le_add_right _ _)
      have := ih { cur with now := cur.now + dt } { cur' with now := cur'.now + dt }
        (by rw [← hnow]; exact hinv') htok' hun''
      simpa [run, stepEvent, envOnly] using this
    | reload =>
      have hun'' : ∀ e ∈ es, ∀ r, e = .line (.request r) → credentialRole cur'.reload r.auth = none :=
        fun e he r hr => by rw [credentialRole_reload]; exact hun' e he r hr
      have := ih cur.reload cur'.reload (reload_pruned_congr hinv) htok' hun''
      simpa [run, stepEvent, envOnly] using this
    | line l =>
      -- the step is silent and keeps `pruned`
      have hstep : (step cur l).1.pruned = cur.pruned ∧ (step cur l).2.fx = [] ∧
          (step cur l).2.reply.carriesData = false := by
        cases l with
        | request r =>
          have hnone : credentialRole cur r.auth = none := by
            rw [credentialRole_congr hinv]
            exact hun _ (List.mem_cons_self ..) r rfl
          rcases handleRequest_cases cur r with ⟨⟨h1, h2, h3⟩, _⟩ | ⟨role, _, _, hc, _⟩
          · exact ⟨h3, h1, h2⟩
          · rw [hnone] at hc; cases hc
        | notJson => exact ⟨rfl, rfl, rfl⟩
        | notRequest => exact ⟨rfl, rfl, rfl⟩
      obtain ⟨hp, hfx, hcd⟩ := hstep
      have := ih (step cur l).1 cur' (hp.trans hinv) htok' hun'
      simp only [run, stepEvent, Option.toList, List.cons_append, List.nil_append, envOnly,
        List.mem_cons]
      refine ⟨this.1, ?_⟩
      rintro o (rfl | ho)
      · exact ⟨hfx, hcd⟩
      · exact this.2 o ho

/-! ## Clause 3 — every mutating request type requires more than the viewer role -/

/-- The hand-written effect classification covers every name the dispatcher knows (a handler added to
the code without being classified here makes this theorem, hence the build, fail). -/
theorem c18_classification_total :
    ∀ r ∈ dispatched, (staticEffect true r).isSome = true ∧ (staticEffect false r).isSome = true := by
  decide

/-- Nothing the dispatcher knows falls through to the permissive default arm of the permission table. -/
theorem c18_dispatched_listed : ∀ r ∈ dispatched, (lookupArm r).isSome = true := by
  decide

/-- No request name is claimed by two handler modules (the first would silently shadow the second). -/
theorem c18_dispatch_unique : dispatched.Nodup := by
  decide

/-- **required(r) > viewer for every mutating r**, whatever the parameters. -/
theorem c18_mutating_above_viewer (r : String) (hr : r ∈ dispatched) (hm : mutating r = true)
    (p : Params) : Role.viewer.rank < (requiredRole r p).rank := by
  have hfloor : ∀ r ∈ dispatched, mutating r = true → Role.viewer.rank < (requiredFloor r).rank := by
    decide
  exact Nat.lt_of_lt_of_le (hfloor r hr hm) (requiredFloor_le r p)

/-- Keys of `required_role_for_config_set` that raise the requirement are keys `handle_config_set`
really accepts (a misspelt guard would leave the real key at the lower requirement). -/
theorem c18_config_listed_keys_handled : ∀ k ∈ configSetListedKeys, k ∈ configSetHandledKeys := by
  decide

/-- The key classification is total over the keys `handle_config_set` accepts. -/
theorem c18_config_keys_classified : ∀ k ∈ configSetHandledKeys, (sensitiveKey k).isSome = true := by
  decide

/-- A config.set that touches a credential / authentication-mode key requires the administrator. -/
theorem c18_sensitive_config_needs_admin (es : List Entry) (e : Entry) (he : e ∈ es)
    (hk : e.key ∈ configSetHandledKeys) (hs : sensitiveKey e.key = some true) :
    requiredRole "config.set" (.object es) = .admin := by
  have hlisted : ∀ k ∈ configSetHandledKeys, sensitiveKey k = some true → configSetListedKeys.contains k = true := by
    decide
  have hany : es.any (fun e => configSetListedKeys.contains e.key) = true :=
    List.any_eq_true.2 ⟨e, he, hlisted _ hk hs⟩
  have harm : lookupArm "config.set" = some .configSet := by decide
  simp only [requiredRole, harm, requiredRoleForConfigSet, hany, if_true]
  decide

/-- Any config.set at all requires at least the engineer. -/
theorem c18_config_set_needs_engineer (p : Params) :
    Role.engineer.rank ≤ (requiredRole "config.set" p).rank := by
  have : Role.engineer.rank ≤ (requiredFloor "config.set").rank := by decide
  exact Nat.le_trans this (requiredFloor_le _ p)

/-! ## Clause 4 — debug-class requests are refused while debugging is disabled -/

/-- Every request dispatched by the debugger's handler modules is on the `is_debug_request` list … -/
theorem c18_debug_gate_complete : ∀ r ∈ debugClass, isDebugRequest r = true := by
  decide

/-- … and the list names nothing else. -/
theorem c18_debug_list_exact : ∀ r ∈ debugRequests, r ∈ debugClass := by
  decide

/-- While debugging is disabled a debug-class request has no effect, gets no data and changes nothing —
whatever the credential (even the administrator's). -/
theorem c18_debug_refused_when_disabled (ep : Endpoint) (r : Request) (hoff : ep.debugEnabled = false)
    (hd : r.type ∈ debugClass) :
    (step ep (.request r)).2.fx = [] ∧ (step ep (.request r)).2.reply.carriesData = false ∧
    (step ep (.request r)).1.pruned = ep.pruned := by
  rcases handleRequest_cases ep r with ⟨h, _⟩ | ⟨_, _, _, _, _, hdbg, _⟩
  · exact h
  · have := hdbg (c18_debug_gate_complete _ hd)
    rw [hoff] at this; cases this

/-! ## Unknown request types -/

/-- A request type no handler knows never has an effect and never yields data, whatever role sent it. -/
theorem c18_unknown_no_effect (ep : Endpoint) (r : Request) (hunk : r.type ∉ dispatched) :
    (step ep (.request r)).2.fx = [] ∧ (step ep (.request r)).2.reply.carriesData = false ∧
    (step ep (.request r)).1.pruned = ep.pruned := by
  rcases handleRequest_cases ep r with ⟨h, _⟩ | ⟨_, _, _, _, _, _, hf, _⟩
  · exact h
  · exact absurd ((findHandler_isSome_iff _).1 (by simp [hf])) hunk

/-! ## Role order -/

/-- `allows` is `≥` … -/
theorem c18_allows_iff (a r : Role) : allows a r = true ↔ r.rank ≤ a.rank := allows_iff a r

/-- … on a total order of the roles (rank is injective, so `≤` on ranks is antisymmetric on roles) … -/
theorem c18_role_order_total (a b : Role) :
    (a.rank ≤ b.rank ∨ b.rank ≤ a.rank) ∧ (a.rank = b.rank → a = b) :=
  ⟨Nat.le_total _ _, rank_injective a b⟩

/-- … hence monotone: whatever a role may do, every higher role may do, and a role that may do
something may do everything that requires less. -/
theorem c18_monotone (a b r r' : Role) (h : allows a r = true) :
    (a.rank ≤ b.rank → allows b r = true) ∧ (r'.rank ≤ r.rank → allows a r' = true) := by
  rw [allows_iff] at h
  constructor <;> intro h' <;> rw [allows_iff] <;> omega

/-- The administrator passes every role requirement, the viewer only viewer-level ones. -/
theorem c18_admin_top_viewer_bottom (r : Role) :
    allows .admin r = true ∧ (allows .viewer r = true → r = .viewer) := by
  cases r <;> decide

/-! ## Clause 5 — malformed input -/

/-- Malformed input of any kind changes nothing and reveals nothing. -/
theorem c18_malformed_no_effect (ep : Endpoint) (l : Line) (h : ∀ r, l ≠ .request r) :
    (step ep l).1 = ep ∧ (step ep l).2.fx = [] ∧ (step ep l).2.reply.carriesData = false :=
  step_malformed ep l h

/-- **Malformed input yields an error reply**: every line that is not a request — whatever its bytes;
`read_request_line` decodes lossily, so there is no line the parser does not get to see — is answered
with the error reply `invalid request: …` carrying id 0, and the connection goes on (`step` is total:
every line has a reply).  Before fix 2c1da06 a line that was not valid UTF-8 ended the connection
without a reply (former finding `C18-nonutf8-line-no-reply`; its witness stays in the harness corpus). -/
theorem c18_malformed_error_reply (ep : Endpoint) (l : Line) (h : ∀ r, l ≠ .request r) :
    (step ep l).2.reply = .invalid := by
  cases l with
  | request r => exact absurd rfl (h r)
  | notJson => rfl
  | notRequest => rfl

/-- Non-vacuity of the two theorems above. -/
example : (∀ r, Line.notJson ≠ .request r) ∧ (∀ r, Line.notRequest ≠ .request r) :=
  ⟨fun _ h => Line.noConfusion h, fun _ h => Line.noConfusion h⟩

/-! ## Pairing -/

/-- A token minted by pair.claim never carries the administrator role, whatever role was asked for. -/
theorem c18_claim_never_mints_admin (requested : Option Role) :
    sanitizeRequestedRole requested ≠ .admin := by
  cases requested with
  | none => decide
  | some r => cases r <;> decide

/-- **Revocation by id is complete.**  Token ids are derived from the clock (`pair-<seconds>`), so two
pairings claimed within the same second share an id; `revoke` disables EVERY token carrying the id … -/
theorem c18_revoke_disables_every_token_with_id (p : Pairing) (now : Nat) (id : String) :
    ∀ e ∈ (p.revoke now id).1.tokens, e.id = id → e.enabled = false :=
  revoke_disables_id p now id

/-- … hence after `revoke id` no token string handed out under that id maps to a role any more (at the
time of the revocation or later). -/
theorem c18_revoked_id_maps_to_no_role (p : Pairing) (now later : Nat) (id tok : String)
    (hlater : now ≤ later) (h : ∀ e ∈ p.tokens, e.token = tok → e.id = id) :
    lookupToken (prune later (p.revoke now id).1.tokens) tok = none := by
  have := revoke_token_none p now id tok h
  rw [← prune_prune_le hlater]
  exact lookupToken_none_prune later this

/-- Non-vacuity, end to end: two pairings claimed in the same second get the same id; the administrator
revokes that id; neither token is accepted afterwards (before, the engineer one could write I/O). -/
example :
    let ep : Endpoint :=
      { authToken := some "T", requiresAuth := false, debugEnabled := true, debugMode := false,
        pairing := some ⟨[], none⟩, now := 1000 }
    let req (id : Nat) (ty : String) (auth : String) (nonce : String) (ps : List Entry) : Event :=
      .line (.request { id := id, type := ty, auth := some auth, nonce := nonce, params := .object ps })
    let pairTwo : List Event :=
      [req 1 "pair.start" "T" "111111" [], req 2 "pair.claim" "T" "TOKV" [⟨"code", .str "111111", true⟩, ⟨"role", .str "viewer", true⟩],
       req 3 "pair.start" "T" "222222" [], req 4 "pair.claim" "T" "TOKE" [⟨"code", .str "222222", true⟩, ⟨"role", .str "engineer", true⟩]]
    ((run ep pairTwo).1.pairingView.map (·.map (·.id))) = some ["pair-1000", "pair-1000"] ∧
    credentialRole (run ep pairTwo).1 (some "TOKE") = some .engineer ∧
    (let after := (run ep (pairTwo ++ [req 5 "pair.revoke" "T" "" [⟨"id", .str "pair-1000", true⟩]])).1
     credentialRole after (some "TOKV") = none ∧ credentialRole after (some "TOKE") = none) := by decide

/-- Observation (not a violation of the stated property, recorded for the maintainers): pair.claim needs
the operator role, but the claimant chooses the role of the minted token, so an operator who knows the
pending code obtains an engineer token. -/
example :
    let ep : Endpoint :=
      { authToken := some "T", requiresAuth := false, debugEnabled := true, debugMode := false,
        pairing := some ⟨[⟨"pair-o", "O", .operator, true, 2000⟩], some ("123456", 1300)⟩, now := 1000 }
    let claim : Event :=
      .line (.request { id := 1, type := "pair.claim", auth := some "O", nonce := "MINTED",
                        params := .object [⟨"code", .str "123456", true⟩, ⟨"role", .str "engineer", true⟩] })
    credentialRole ep (some "O") = some .operator ∧
    credentialRole (run ep [claim]).1 (some "MINTED") = some .engineer := by decide

/-- **A pairing code is single-use.**  A successful `claim` clears the pending code, so every later
`claim` — any code, any time, any requested role — fails until an administrator starts a new pairing. -/
theorem c18_claim_single_use (p : Pairing) (now : Nat) (code : String) (req : Option Role) (fresh : String)
    (h : (p.claim now code req fresh).2 = true)
    (now' : Nat) (code' : String) (req' : Option Role) (fresh' : String) :
    (p.claim now code req fresh).1.pending = none ∧
    ((p.claim now code req fresh).1.claim now' code' req' fresh').2 = false := by
  have hp : (p.claim now code req fresh).1.pending = none := by
    unfold Pairing.claim at h ⊢
    cases hpend : p.pending with
    | none => simp [hpend] at h
    | some pe =>
      obtain ⟨pcode, exp⟩ := pe
      simp only [hpend] at h ⊢
      split
      · rfl
      · split
        · rename_i h1 h2; simp [h1, h2] at h
        · split <;> rfl
  refine ⟨hp, ?_⟩
  generalize (p.claim now code req fresh).1 = q at hp
  unfold Pairing.claim
  simp [hp]

/-- **A failed claim mints nothing**: the token list afterwards is the old one with expired entries
dropped — no new entry, whatever went wrong (no pending code, expired code, wrong code, store full). -/
theorem c18_failed_claim_mints_nothing (p : Pairing) (now : Nat) (code : String) (req : Option Role)
    (fresh : String) (h : (p.claim now code req fresh).2 = false) :
    (p.claim now code req fresh).1.tokens = prune now p.tokens := by
  unfold Pairing.claim at h ⊢
  cases hpend : p.pending with
  | none => simp
  | some pe =>
    obtain ⟨pcode, exp⟩ := pe
    simp only [hpend] at h ⊢
    split
    · rfl
    · split
      · rfl
      · split
        · rfl
        · rename_i h1 h2 h3; simp [h1, h2, h3] at h

/-- **An expired pairing code is refused** (`PAIRING_CODE_TTL_SECS`): a claim after the code's expiry
fails even with the right code, and clears the code. -/
theorem c18_expired_code_refused (p : Pairing) (now : Nat) (code : String) (req : Option Role)
    (fresh pcode : String) (exp : Nat) (hp : p.pending = some (pcode, exp)) (hexp : exp < now) :
    (p.claim now code req fresh).2 = false ∧ (p.claim now code req fresh).1.pending = none := by
  unfold Pairing.claim
  simp [hp, hexp]

/-- **A wrong code is refused and does not consume the pending code.** -/
theorem c18_wrong_code_refused (p : Pairing) (now : Nat) (code : String) (req : Option Role)
    (fresh pcode : String) (exp : Nat) (hp : p.pending = some (pcode, exp)) (hlive : ¬ exp < now)
    (hne : pcode ≠ trimmed code) :
    (p.claim now code req fresh).2 = false ∧
    (p.claim now code req fresh).1.pending = some (pcode, exp) := by
  unfold Pairing.claim
  simp [hp, hlive, hne]

/-- **An expired token maps to no role** (`PAIRING_TOKEN_TTL_SECS`): if every entry carrying the token
string has expired, validation finds nothing. -/
theorem c18_expired_token_no_role (p : Pairing) (now : Nat) (tok : String)
    (h : ∀ e ∈ p.tokens, e.token = tok → e.expiresAt < now) :
    (p.validate now tok).2 = none := by
  unfold Pairing.validate lookupToken prune
  simp only [Option.map_eq_none_iff, List.find?_eq_none, List.mem_filter, decide_eq_true_eq]
  rintro e ⟨he, hle⟩
  simp only [Bool.and_eq_true, decide_eq_true_eq, not_and]
  intro _ htok
  have := h e he htok
  omega

/-- **The store never holds more than `PAIRING_MAX_TOKENS` enabled tokens**: `claim` preserves the
bound (it is the only operation that adds an entry). -/
theorem c18_claim_bounded (p : Pairing) (now : Nat) (code : String) (req : Option Role) (fresh : String)
    (h : enabledCount p.tokens ≤ maxTokens) :
    enabledCount (p.claim now code req fresh).1.tokens ≤ maxTokens := by
  have hpr := enabledCount_prune_le now p.tokens
  by_cases hok : (p.claim now code req fresh).2 = false
  · rw [c18_failed_claim_mints_nothing p now code req fresh hok]; omega
  · unfold Pairing.claim at hok ⊢
    cases hpend : p.pending with
    | none => simp [hpend] at hok
    | some pe =>
      obtain ⟨pcode, exp⟩ := pe
      simp only [hpend] at hok ⊢
      split
      · simp_all
      · split
        · simp_all
        · split
          · simp_all
          · rename_i h3
            simp only [enabledCount] at h3 ⊢
            simp only [List.filter_append, List.length_append]
            simp only [ge_iff_le, Nat.not_le] at h3
            simp [List.filter]
            omega

/-- **A restart invalidates an outstanding pairing code**: the pending code lives in memory only,
so after the store is re-opened every claim fails until a new pairing is started. -/
theorem c18_reload_drops_pending_code (p : Pairing) (now : Nat) (code : String) (req : Option Role)
    (fresh : String) : (p.reload.claim now code req fresh).2 = false := by
  simp [Pairing.reload, Pairing.claim]

/-- **Starting a new pairing replaces the old code**: once `start_pairing` ran again, a claim with
anything but the new code fails (the old code cannot be used any more), and it leaves the new code
pending. -/
theorem c18_start_replaces_code (p : Pairing) (now now' : Nat) (newCode code : String)
    (req : Option Role) (fresh : String) (hne : newCode ≠ trimmed code) :
    ((p.start now newCode).claim now' code req fresh).2 = false := by
  unfold Pairing.start Pairing.claim
  simp only
  split
  · rfl
  · simp

/-- Non-vacuity of the pairing-code theorems: a live code is accepted once (surrounding blanks trimmed),
the same claim repeated is refused, and the same code after its expiry is refused. -/
example :
    let p : Pairing := ⟨[], some ("123456", 1300)⟩
    (p.claim 1000 " 123456 " none "TOK").2 = true ∧
    ((p.claim 1000 " 123456 " none "TOK").1.claim 1001 "123456" none "TOK2").2 = false ∧
    (p.claim 1301 "123456" none "TOK").2 = false ∧
    (p.claim 1000 "654321" none "TOK").1.pending = some ("123456", 1300) := by decide


/-! ## Non-vacuity -/

/-- A concrete endpoint: token configured, debugging off, one live engineer pairing token, one expired
administrator pairing token. -/
def exampleEndpoint : Endpoint :=
  { authToken := some "T", requiresAuth := false, debugEnabled := false, debugMode := false,
    pairing := some ⟨[⟨"pair-e", "E", .engineer, true, 2000⟩, ⟨"pair-x", "X", .admin, true, 999⟩], none⟩,
    now := 1000 }

/-- `c18_effect_needs_role` is not vacuous: an engineer's io.write passes every gate and changes a probe … -/
example :
    (step exampleEndpoint (.request { id := 7, type := "io.write", auth := some "E", params := .missing })).2 =
      ⟨.handled 7 "io" "handle_io_write", [.debug]⟩ := by decide

/-- … the same request without a credential, with the expired administrator token, or from a viewer-level
position is refused (hypotheses of `c18_unauth_silent` are satisfiable) … -/
example :
    credentialRole exampleEndpoint none = none ∧ credentialRole exampleEndpoint (some "X") = none ∧
    credentialRole exampleEndpoint (some "E") = some .engineer ∧
    credentialRole exampleEndpoint (some "T") = some .admin := by decide

/-- … debug-class requests are refused while debugging is off even for the administrator, and allowed
after an engineer switched it on (hypotheses of `c18_debug_refused_when_disabled`) … -/
example :
    (step exampleEndpoint (.request { id := 1, type := "set", auth := some "T", params := .missing })).2.reply =
      .debugDisabled 1 ∧
    "set" ∈ debugClass ∧
    (run exampleEndpoint
      [.line (.request { id := 2, type := "config.set", auth := some "E",
                         params := .object [⟨"control.debug_enabled", .bool true, true⟩] }),
       .line (.request { id := 3, type := "set", auth := some "E", params := .missing })]).2.map (·.reply) =
      [.handled 2 "status" "handle_config_set", .handled 3 "variables" "handle_set"] := by decide

/-- … and an engineer cannot rotate the token while the administrator can, after which the old token is
worthless (hypothesis of `c18_sensitive_config_needs_admin`; a history for `c18_history_unauth_silent`). -/
example :
    let rotate (auth : String) : Event :=
      .line (.request { id := 4, type := "config.set", auth := some auth,
                        params := .object [⟨"control.auth_token", .str "N", true⟩] })
    (run exampleEndpoint [rotate "E"]).2.map (·.reply) = [.forbidden 4 .admin] ∧
    (run exampleEndpoint [rotate "T", .line (.request { id := 5, type := "status", auth := some "T", params := .missing })]).2.map (·.reply) =
      [.handled 4 "status" "handle_config_set", .unauthorized 5] ∧
    mutating "config.set" = true ∧ "config.set" ∈ dispatched := by decide

end TrustVerif.C18
