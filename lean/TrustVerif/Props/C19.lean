import TrustVerif.Lemmas.C19Mk

/-!
# C19 — web IDE file API stays inside the project and never loses a concurrent edit

Property theorems only.  `Model/C19.lean` mirrors `crates/trust-runtime/src/web/ide.rs`.
-/
namespace TrustVerif.C19

/-- **Normal form** ("for every path string"): whatever string `normalize_workspace_path` accepts,
the emitted parts are non-empty, contain no `/`, do not start with `.` (so none is `.`, `..` or a
hidden name), there is at least one, the path the OS later parses from the joined string has
exactly these parts as `Normal` components, and `root.join(normalized)` is lexically below any
root. -/
theorem c19_normal_form (p : List Char) (ps : List Name) (h : normalizeParts p = .ok ps) :
    ps ≠ [] ∧
    (∀ c ∈ ps, c ≠ [] ∧ '/' ∉ c ∧ isHiddenName c = false ∧ c ≠ ['.'] ∧ c ≠ ['.', '.']) ∧
    components (joinSlash ps) = ps.map Component.normal ∧
    ∀ root : Path, root <+: root ++ ps := by
  obtain ⟨hne, hparts⟩ := normalizeParts_ok p ps h
  refine ⟨hne, ?_, components_joinSlash ps hne hparts, fun root => List.prefix_append root ps⟩
  intro c hc
  obtain ⟨h1, h2, h3⟩ := hparts c hc
  exact ⟨h1, h2, h3, (not_hidden_ne_dots c h3).1, (not_hidden_ne_dots c h3).2⟩

/-- Non-vacuity of `c19_normal_form`, and the rejections of the property statement's list
(`..`, absolute, hidden, empty; `./`, `//`, surrounding white space and backslashes are
tolerated — a backslash is an ordinary character on Unix). -/
example :
    normalizeParts " ./lib//util.st\t".toList = .ok ["lib".toList, "util.st".toList] ∧
    normalizeParts "a\\..\\b".toList = .ok ["a\\..\\b".toList] ∧
    normalizeParts "../x".toList = .error .forbidden ∧
    normalizeParts "lib/../../x".toList = .error .forbidden ∧
    normalizeParts "/etc/passwd".toList = .error .forbidden ∧
    normalizeParts "lib/.git/config".toList = .error .forbidden ∧
    normalizeParts "...".toList = .error .forbidden ∧
    normalizeParts " . ".toList = .error .invalidInput ∧
    normalizeParts "".toList = .error .invalidInput := by
  decide

/-! ## Confinement -/

/-- **Confinement** ("never read, create, modify or remove anything outside the active project
directory, and never touch hidden entries"): for every (well-formed) file system — symbolic links
to directories and files anywhere, pointing anywhere, dangling or looping —, every project root,
every session table, every operation of the API and every argument string, each effect the
operation has on the file system (file content read, directory listed, file written, directory
created, entry removed, entry moved: `Effect`, recorded by physical location, i.e. after all
symbolic links were resolved) lies at `canonical_root ++ rel` where no component of `rel` starts
with `.` (`Under`).  For removals and moves the location is the root of the affected subtree
(hidden descendants of a visible directory go with it).  Metadata look-ups made by
`canonicalize`/`exists` while *checking* a path are not effects. -/
theorem c19_confined (w : World) (hwf : WF w.fs) (op : Op) :
    ∀ e ∈ (step w op).effects, ∀ q ∈ e.paths,
      ∃ rel, q = canonRoot w.fs w.root ++ rel ∧ ∀ c ∈ rel, isHiddenName c = false :=
  fun e he q hq => step_confined w hwf op e he q hq

/-- Non-vacuity of `c19_confined`, and the witnesses of the repaired defects as refusals: in the
project `p` of `exWorld` (link `dout → o` to an outside directory, file link `f.st → o/s.st`,
dangling link `d.st → o/new.st`, link `vis → p/.hid`, hidden file `p/.hid/s.st`) an editor's
operations through any of the links are refused with no effect, a search for the outside / hidden
text reads only the ordinary file, and an ordinary nested create has exactly two confined effects. -/
example :
    wfCheck exWorld.fs = true ∧
    refused exWorld (.open 0 "f.st".toList) = true ∧
    refused exWorld (.apply 0 "f.st".toList 1 "y".toList true) = true ∧
    refused exWorld (.create 0 "d.st".toList false none true) = true ∧
    refused exWorld (.open 0 "dout/s.st".toList) = true ∧
    refused exWorld (.create 0 "dout/n.st".toList false none true) = true ∧
    refused exWorld (.open 0 "vis/s.st".toList) = true ∧
    refused exWorld (.delete 0 "vis/s.st".toList true) = true ∧
    refused exWorld (.rename 0 "m.st".toList "dout/m.st".toList true) = true ∧
    (step exWorld (.listSources 0)).effects = [.list ["p".toList]] ∧
    (step exWorld (.search 0 "zz".toList 50)).effects =
      [.list ["p".toList], .read ["p".toList, "m.st".toList]] ∧
    (step exWorld (.create 0 "a/b.st".toList false none true)).effects =
      [.mkdir ["p".toList, "a".toList], .write ["p".toList, "a".toList, "b.st".toList]] := by
  decide

/-! ## Gates before effects -/

/-- **Gates first** ("viewer sessions, expired sessions and write-disabled mode cannot mutate
anything"): for every state of the file system and of the session table, every operation and every
argument, unless the operation is a mutating one called with `write_enabled` by a token that names
an unexpired editor session (`Op.mayMutate`), the file system after the operation is the file system
before it and no mutation effect was performed on the way — in particular no directory is created
before a check fails (the model performs the checks and the `std::fs` calls in program order). -/
theorem c19_gates_first (w : World) (op : Op) (h : op.mayMutate w = false) :
    (step w op).world.fs = w.fs ∧ ∀ e ∈ (step w op).effects, e.isMutation = false :=
  readonly_ops w op h

/-- A refused mutating operation also leaves the tracked documents (contents and versions), the
retired-version floor and the audit log untouched; only the session table may have been pruned /
renewed. -/
theorem c19_refused_keeps_documents (w : World) (tok : Nat) (p n : List Char) (e : Nat)
    (c : List Char) (oc : Option (List Char)) (d we : Bool)
    (h : (we && liveEditor w.inner tok w.now) = false) :
    ∀ op ∈ [Op.apply tok p e c we, Op.create tok p d oc we, Op.rename tok p n we, Op.delete tok p we],
      (step w op).world.inner.docs = w.inner.docs ∧ (step w op).world.inner.floor = w.inner.floor ∧
      (step w op).world.inner.audit = w.inner.audit := by
  intro op hop
  have key : ∀ o : Out, Quiet w o → o.world.inner.docs = w.inner.docs ∧
      o.world.inner.floor = w.inner.floor ∧ o.world.inner.audit = w.inner.audit :=
    fun o hq => ⟨congrArg Prod.fst hq.2.1, congrArg Prod.snd hq.2.1, hq.2.2.1⟩
  simp only [List.mem_cons, List.not_mem_nil, or_false] at hop
  rcases hop with rfl | rfl | rfl | rfl
  · exact key _ (applySource_quiet w tok p e c we h)
  · exact key _ (createEntry_quiet w tok p d oc we h)
  · exact key _ (renameEntry_quiet w tok p n we h)
  · exact key _ (deleteEntry_quiet w tok p we h)

/-- Non-vacuity of the gate theorems: on a one-file project a viewer (token 0), an unknown token
(7) and an editor with writes disabled are refused without any change, and the same rename by the
editor (token 1) with writes enabled does create the parent directory and move the file. -/
example :
    let w0 : World := { fs := [(["p".toList], .dir), (["p".toList, "m.st".toList], .file "x".toList)],
                        root := ["p".toList] }
    let w1 := (step w0 (.createSession false)).world
    let w := (step w1 (.createSession true)).world
    let mv (t : Nat) (we : Bool) := step w (.rename t "m.st".toList "d/m.st".toList we)
    (Op.rename 0 "m.st".toList "d/m.st".toList true).mayMutate w = false ∧
    (Op.rename 7 "m.st".toList "d/m.st".toList true).mayMutate w = false ∧
    (Op.rename 1 "m.st".toList "d/m.st".toList false).mayMutate w = false ∧
    (Op.rename 1 "m.st".toList "d/m.st".toList true).mayMutate w = true ∧
    (mv 0 true).world.fs = w.fs ∧ (mv 7 true).world.fs = w.fs ∧ (mv 1 false).world.fs = w.fs ∧
    (mv 1 true).effects = [.mkdir ["p".toList, "d".toList],
      .move ["p".toList, "m.st".toList] ["p".toList, "d".toList, "m.st".toList]] := by
  decide

/-! ## The document/version protocol (all interleavings of unlocked reads and locked sections) -/
open Proto

/-- **No lost update** ("a write succeeds only if it was based on the latest version … no
successful write is silently overwritten"), for every number of clients, every interleaving of
their unlocked disk reads and locked sections, every expected version they send, every
interference by analysis requests that overwrite the tracked text (`override`), and — since the
repairs of C19-version-reuse and C19-rename-symbol-bypass — every `delete_entry` / `create_entry`
/ eviction of the tracked document, retirement of other documents (the floor is shared) and
`rename_symbol` in between (`Step.covered`: everything but a write through a second document key
of the same file, the open finding C19-alias-keys, see the counterexample below), as long as the
version counters stay below `u64::MAX` (`traceCost`: 2 per step, `k + 2` for a foreign document
retired at version `k`).  A successful write of an honest client — `base = some c`: the client
sent an `expected` version it had been given together with content `c` (for `rename_symbol`: `c`
is what it read under the lock) — found exactly `c` on disk; and every successful write found on
disk the content of the previous successful write (or the initial content), or no file at all (it
had been removed by `delete_entry`), so nothing that was successfully written is ever replaced
unseen. -/
theorem c19_no_lost_update_partial (d0 : Content) (tr : List Step)
    (hv : ∀ st ∈ tr, st.covered = true) (hlen : traceCost tr + 2 < u64Max) :
    (∀ ev ∈ (run (init d0) tr).successes, ∀ c, ev.base = some c → ev.diskBefore = some c) ∧
    chainOk d0 (run (init d0) tr).successes := by
  have h := run_inv (d0 := d0) tr (init d0) 0 (inv_init d0) hv (by omega)
  exact ⟨fun ev hev => (h.succ_ok ev hev).2.2, h.chain⟩

/-- **Version chain** ("successes form a chain v → v+1"): every successful write returns
`expected + 1` (`create_entry`: one above the retired floor; `rename_symbol`: one above the version
it read under the lock), and the versions of the successive successes strictly increase — also
across a deletion and re-creation of the file: no version is handed out twice. -/
theorem c19_version_chain_partial (d0 : Content) (tr : List Step)
    (hv : ∀ st ∈ tr, st.covered = true) (hlen : traceCost tr + 2 < u64Max) :
    (∀ ev ∈ (run (init d0) tr).successes, ev.version = ev.expected + 1) ∧
    (run (init d0) tr).successes.Pairwise (fun a b => a.version < b.version) := by
  have h := run_inv (d0 := d0) tr (init d0) 0 (inv_init d0) hv (by omega)
  exact ⟨fun ev hev => (h.succ_ok ev hev).1, h.sorted⟩

/-- **One success per version** (what the real-thread contention run observes): among the
successful writes of any interleaving no two carry the same expected version — of k writers
released together on version v exactly the first one to take the lock wins.  This is where the
atomicity of the locked section (`applyLocked`: check, disk write and commit in ONE transition)
enters; compare `c19_counterexample_split_apply`. -/
theorem c19_one_success_per_version_partial (d0 : Content) (tr : List Step)
    (hv : ∀ st ∈ tr, st.covered = true) (hlen : traceCost tr + 2 < u64Max) :
    (run (init d0) tr).successes.Pairwise (fun a b => a.expected ≠ b.expected) := by
  have h := run_inv (d0 := d0) tr (init d0) 0 (inv_init d0) hv (by omega)
  exact expected_distinct _ (fun ev hev => (h.succ_ok ev hev).1) h.sorted

/-- **Disk = last success** ("the file always equals the content of the last successful write"):
whenever the file exists (it is absent only after a `delete_entry`), it holds the content of the
last successful write, or the initial content if there was none. -/
theorem c19_disk_is_last_success_partial (d0 : Content) (tr : List Step)
    (hv : ∀ st ∈ tr, st.covered = true) (hlen : traceCost tr + 2 < u64Max) :
    ∀ c, (run (init d0) tr).disk = some c → c = lastContent d0 (run (init d0) tr).successes := by
  have h := run_inv (d0 := d0) tr (init d0) 0 (inv_init d0) hv (by omega)
  exact h.disk_ok

/-- Non-vacuity: two honest writers race; the first wins (1 → 2); the second, whose unlocked read
happened before that write, is refused (its stale read bumps the version to 3); it re-opens
(version 4, content `A`) and then succeeds (4 → 5). -/
example :
    (∀ st ∈ raceTrace, st.covered = true) ∧ traceCost raceTrace + 2 < u64Max ∧
    ((run (init "v0".toList) raceTrace).successes.map fun ev => (ev.client, ev.expected, ev.version)) =
      [(0, 1, 2), (1, 4, 5)] ∧
    ((run (init "v0".toList) raceTrace).successes.map fun ev => (ev.base, ev.diskBefore)) =
      [(some "v0".toList, some "v0".toList), (some "A".toList, some "A".toList)] ∧
    (run (init "v0".toList) raceTrace).disk = some "B2".toList := by
  decide

/-- **Witness of the repaired finding C19-version-reuse** (non-vacuity of the theorems over
`delete` / `create` / `retireOther`): client 0 holds a snapshot (version 1, content `v0`); client 1
saves `B1` (1 → 2), deletes the file, a document of another file is retired at version 4, client 1
re-creates the file with `B2` — the new document starts at 5, above everything retired, instead of
restarting at 1.  Client 0's save with expected = 1 is refused (it used to succeed and replace
`B2` unseen); it re-opens (5, `B2`) and then saves on top of `B2` (5 → 6). -/
example :
    (∀ st ∈ reuseTrace, st.covered = true) ∧ traceCost reuseTrace + 2 < u64Max ∧
    ((run (init "v0".toList) reuseTrace).successes.map fun ev => (ev.client, ev.expected, ev.version)) =
      [(1, 1, 2), (1, 4, 5), (0, 5, 6)] ∧
    ((run (init "v0".toList) reuseTrace).successes.map fun ev => (ev.base, ev.diskBefore)) =
      [(some "v0".toList, some "v0".toList), (none, none), (some "B2".toList, some "B2".toList)] ∧
    (run (init "v0".toList) reuseTrace).disk = some "A2".toList := by
  decide

/-- **Witness of the repaired finding C19-rename-symbol-bypass** (non-vacuity over `symRename`):
client 0's `rename_symbol` with the stale buffer `v0` after client 1's save `B1` (1 → 2) is
refused and leaves `B1` on disk (it used to write `renamed(v0)`); with the buffer the file holds
it goes through as a write based on `B1` (2 → 3), and client 1's save based on version 2 is then
refused. -/
example :
    (∀ st ∈ symRenameTrace, st.covered = true) ∧ traceCost symRenameTrace + 2 < u64Max ∧
    (run (init "v0".toList) (symRenameTrace.take 7)).disk = some "B1".toList ∧
    ((run (init "v0".toList) symRenameTrace).successes.map fun ev => (ev.client, ev.expected, ev.version)) =
      [(1, 1, 2), (0, 2, 3)] ∧
    ((run (init "v0".toList) symRenameTrace).successes.map fun ev => (ev.base, ev.diskBefore)) =
      [(some "v0".toList, some "v0".toList), (some "B1".toList, some "B1".toList)] ∧
    (run (init "v0".toList) symRenameTrace).disk = some "renamed(B1)".toList := by
  decide

/-- **Counterexample (open finding C19-alias-keys)**: tracked documents are keyed by the normalised
request string, so a file reachable through an in-root directory link has several independent
version counters.  A write through the other key (`aliasWrite`) that lands between client 0's
unlocked read and its locked section bumps nothing client 0's check looks at: the honest write
(expected = 1, based on `v0`) succeeds and replaces `B1` unseen.  (Sequentially the content
comparison with the disk still catches it; the stale read is essential.) -/
theorem c19_counterexample_alias_keys :
    ∃ ev ∈ (run (init "v0".toList) aliasTrace).successes,
      ev.client = 0 ∧ ev.base = some "v0".toList ∧ ev.diskBefore = some "B1".toList := by
  decide

/-- **What the protocol theorems rest on**: if the locked section of `apply_source` were torn into
"check under the lock — unlock — write — re-lock and commit" (`splitCheck`/`splitWrite`/
`splitCommit`; NOT the code's behaviour, and not `covered`), two honest writers released on the
same version both succeed (1 → 2 and 1 → 3), and the file ends with the content of the EARLIER
success while the tracked document holds the later one.  Sequentially the torn variant is
indistinguishable from the atomic one, so only real-thread contention (the barrier run of the
harness) can tell them apart in the implementation. -/
theorem c19_counterexample_split_apply :
    ((run (init "v0".toList) splitTrace).successes.map fun ev => (ev.client, ev.expected, ev.version)) =
      [(0, 1, 2), (1, 1, 3)] ∧
    (run (init "v0".toList) splitTrace).disk = some "A".toList ∧
    ((run (init "v0".toList) splitTrace).successes.getLast?.map (·.content)) = some "B".toList := by
  decide

end TrustVerif.C19
