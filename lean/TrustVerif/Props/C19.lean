import TrustVerif.Lemmas.C19

/-!
# C19 — web IDE file API stays inside the project and never loses a concurrent edit

Property theorems only.  `Model/C19.lean` mirrors `crates/trust-runtime/src/web/ide.rs`.
-/
namespace TrustVerif.C19

/-- **Normal form** ("for every path string"): whatever string `normalize_workspace_path` accepts,
the emitted parts are non-empty, contain no `/`, do not start with `.` (so none is `.`, `..` or a
hidden name), there is at least one, the path the OS later parses from the joined string has
exactly these parts as `Normal` components, and `root.join(normalized)` is lexically below any
root. -/
theorem c19_normal_form (p : List Char) (ps : List Name) (h : normalizeParts p = .ok ps) :
    ps ≠ [] ∧
    (∀ c ∈ ps, c ≠ [] ∧ '/' ∉ c ∧ isHiddenName c = false ∧ c ≠ ['.'] ∧ c ≠ ['.', '.']) ∧
    components (joinSlash ps) = ps.map Component.normal ∧
    ∀ root : Path, root <+: root ++ ps := by
  unfold normalizeParts at h
  simp only at h
  split at h
  · simp at h
  · split at h
    · simp at h
    · split at h
      · simp at h
      · simp at h
      · rename_i ps' hne hloop
        simp only [Except.ok.injEq] at h
        subst h
        obtain ⟨hps, hall⟩ := normLoop_ok _ _ hloop
        have hparts : ∀ c ∈ ps', c ≠ [] ∧ '/' ∉ c ∧ isHiddenName c = false := by
          intro c hc
          rw [hps] at hc
          simp only [List.mem_filterMap] at hc
          obtain ⟨comp, hm, hcomp⟩ := hc
          cases comp with
          | normal s =>
            simp only [Option.some.injEq] at hcomp
            subst hcomp
            obtain ⟨h1, h2, _, _⟩ := components_normal _ _ hm
            rcases hall _ hm with h | ⟨s', hs', hh⟩
            · cases h
            · cases hs'
              exact ⟨h1, h2, hh⟩
          | rootDir => simp at hcomp
          | curDir => simp at hcomp
          | parentDir => simp at hcomp
        have hne' : ps' ≠ [] := by
          intro e
          exact hne e
        refine ⟨hne', ?_, components_joinSlash ps' hne' hparts, fun root => List.prefix_append root ps'⟩
        intro c hc
        obtain ⟨h1, h2, h3⟩ := hparts c hc
        exact ⟨h1, h2, h3, (not_hidden_ne_dots c h3).1, (not_hidden_ne_dots c h3).2⟩

/-- Non-vacuity of `c19_normal_form`, and the rejections of the property statement's list
(`..`, absolute, hidden, empty; `./`, `//`, surrounding white space and backslashes are
tolerated — a backslash is an ordinary character on Unix). -/
example :
    normalizeParts " ./lib//util.st\t".toList = .ok ["lib".toList, "util.st".toList] ∧
    normalizeParts "a\\..\\b".toList = .ok ["a\\..\\b".toList] ∧
    normalizeParts "../x".toList = .error .forbidden ∧
    normalizeParts "lib/../../x".toList = .error .forbidden ∧
    normalizeParts "/etc/passwd".toList = .error .forbidden ∧
    normalizeParts "lib/.git/config".toList = .error .forbidden ∧
    normalizeParts "...".toList = .error .forbidden ∧
    normalizeParts " . ".toList = .error .invalidInput ∧
    normalizeParts "".toList = .error .invalidInput := by
  decide

end TrustVerif.C19
