import TrustVerif.Lemmas.C20

/-!
# C20 — resource threads: consistent shared globals; pause/resume/stop always work

Property theorems only.  `Model/C20.lean` is the transition system of
`run_resource_loop_with_shared` (one action per shared-memory access; the locked closure
`with_lock(sync_into; execute_cycle; sync_from)` is FIVE actions, so every interleaving of the
threads and of the controller is an execution `run S (init S) ls`).  All statements quantify over
every system `S` (any number of resources, any cycle function, any inputs, any configuration),
every execution `ls` and — where a state `s` is mentioned — every reachable state.
-/
namespace TrustVerif.C20

/-! ## Clause 1: each cycle works on a snapshot taken atomically with its write-back -/

/-- **Mutual exclusion.**  In every reachable state a thread is inside the locked closure iff it
owns the mutex; hence at most one thread is between `sync_into` and `sync_from`. -/
theorem c20_mutual_exclusion {S : Sys} {s : State} (h : Reachable S s) (q : Nat) :
    (s.res q).pc.inLocked = true ↔ s.lock = some q :=
  mutex_reachable h q

/-- **Serialisability (no lost update), for every interleaving.**  Whatever the interleaving
`ls` of thread and controller actions, the state it reaches — with the section in progress, if
any, completed (`aview`) — is reached by the atomic reference system, in which every locked
closure is ONE action, by the same actions in the same order minus the actions inside
sections (`ls'` is a sublist of `ls`).  So the shared map always equals the result of running
the cycles one after another in the order in which the mutex was acquired.

The locked closure is ONE critical section regardless of anything the cycle does inside it — in
particular regardless of whether a debugger is attached to the resource, is paused, has
breakpoints armed, or stops the cycle at a breakpoint for a while (`Sys.cycle` is an arbitrary
function and the model has no path on which `execute_cycle` runs without the mutex).  The
correspondence run therefore varies the debugger state of every resource (none / attached idle /
breakpoint armed and never hit / breakpoint hit in every cycle and continued) and expects the
same status lines from the model, which ignores that dimension. -/
theorem c20_serialisable {S : Sys} {ls : List Label} {s : State}
    (h : run S (init S) ls = some s) :
    ∃ ls', ls'.Sublist ls ∧ arun S (init S) ls' = some (aview S s) := by
  have := sim_run ls (init S) s (mutex_init S) h
  rwa [aview_of_none S (s := init S) rfl] at this

/-- When no section is in progress the atomic view is the state itself. -/
theorem c20_quiescent_view {S : Sys} {s : State} (h : s.lock = none) : aview S s = s :=
  aview_of_none S h

/-- **The snapshot is not disturbed.**  While thread `r` owns the mutex, no action of another
thread changes the shared map … -/
theorem c20_lock_protects {S : Sys} {s s' : State} {q r : Nat} (h : Reachable S s)
    (hl : s.lock = some r) (hq : q ≠ r) (hs : step S s (.res q) = some s') :
    s'.shared = s.shared := by
  simp only [step] at hs
  split at hs
  · exact lock_protects (mutex_reachable h) hl hq hs
  · cases hs

/-- … and `execute_cycle` of `r` starts on a runtime whose shared names carry exactly the current
shared map (the snapshot its write-back will replace). -/
theorem c20_cycle_sees_snapshot {S : Sys} {s : State} {r : Nat} (h : Reachable S s)
    (hpc : (s.res r).pc = .locked1) : ∀ n ∈ S.names, (s.res r).store n = s.shared n :=
  snap_reachable h r hpc

/-- **Never a half-updated set.**  A relation `I` between shared variables that holds initially and
that every whole cycle (the closure `crit`) re-establishes holds in the atomic view of every
reachable state, in particular whenever no section is in progress — no interleaving exposes an
intermediate shared map. -/
theorem c20_shared_invariant {S : Sys} (I : Store → Prop) (h0 : I S.initShared)
    (hc : ∀ r R sh, I sh → I (crit S r R sh).2) {s : State} (h : Reachable S s) :
    I (aview S s).shared ∧ (s.lock = none → I s.shared) := by
  have := shared_inv I h0 hc h
  exact ⟨this, fun hl => by rwa [aview_of_none S hl] at this⟩

/-- **Sum of increments = shared counter** for the counter programs of the correspondence run,
for every number of resources, increments, inputs (fault injections), configurations and
interleavings: `cnt` equals its initial value plus, for every resource, what its executed cycles
added (a cycle that faults — before or after the increment — is not written back and adds
nothing). -/
theorem c20_counter_sum (n : Nat) (inc : Nat → Int) (input : Nat → Nat → Int) (cfg : Nat → Cfg)
    (c0 p0 : Int) {s : State} (h : Reachable (counterSys n inc input cfg c0 p0) s) :
    (aview (counterSys n inc input cfg c0 p0) s).shared 0 =
      some (c0 + sumTo (fun r => contrib inc input r
        ((aview (counterSys n inc input cfg c0 p0) s).res r).execs) n) := by
  have key := aview_induct (S := counterSys n inc input cfg c0 p0)
    (P := fun s => (∃ c p q, s.shared 0 = some c ∧ s.shared 1 = some p ∧ s.shared 2 = some q) ∧
      s.shared 0 = some (c0 + sumTo (fun r => contrib inc input r (s.res r).execs) n)) ?_ ?_ h
  · exact key.2
  · refine ⟨⟨c0, p0, p0, by simp [init, counterSys, counterInit], by simp [init, counterSys, counterInit],
      by simp [init, counterSys, counterInit]⟩, ?_⟩
    have : sumTo (fun r => contrib inc input r (((init (counterSys n inc input cfg c0 p0)).res r).execs)) n = 0 := by
      simp only [init, contrib]; exact sumTo_zero n
    rw [this]; simp [init, counterSys, counterInit]
  · intro s l s' hm hl ⟨⟨c, p, q, h0, h1, h2⟩, hsum⟩ hst
    rcases astep_cases hm hl hst with ⟨r, _, hrn, _, hres, hsh, hoth, _, _⟩ |
      ⟨r, R', _, _, _, hR, rfl⟩ | ⟨e, _, rfl⟩
    · obtain ⟨hex, hcr⟩ := counter_crit n inc input cfg c0 p0 r (s.res r) s.shared c p q h0 h1 h2
      have hrn' : r < n := hrn
      have hsum' : sumTo (fun q => contrib inc input q (s'.res q).execs) n =
          sumTo (fun q => contrib inc input q (s.res q).execs) n +
            (if input r (s.res r).execs = 1 ∨ input r (s.res r).execs = 2 then 0 else inc r) := by
        apply sumTo_bump _ _ r _ n hrn'
        · simp only [hres, hex, contrib]
        · intro q hq; simp only [hoth q hq]
      rw [hsh, hcr, hsum']
      rw [h0] at hsum
      have hc : c = c0 + sumTo (fun q => contrib inc input q (s.res q).execs) n := by
        simpa using hsum
      by_cases e1 : input r (s.res r).execs = 1
      · simp [e1, hc, h0, h1, h2]
      · by_cases e2 : input r (s.res r).execs = 2
        · simp [e2, hc, h0, h1, h2]
        · simp [e1, e2, Store.set, hc]; omega
    · refine ⟨⟨c, p, q, h0, h1, h2⟩, ?_⟩
      have : sumTo (fun q => contrib inc input q ((s.setRes r R').res q).execs) n =
          sumTo (fun q => contrib inc input q (s.res q).execs) n := by
        apply sumTo_congr
        intro q _
        by_cases hq : q = r
        · subst hq; simp [State.setRes, localStep_execs hR]
        · simp [State.setRes, hq]
      simp only [State.setRes] at this ⊢
      rw [this]; exact hsum
    · have hres : ∀ q, ((estep e s).res q).execs = (s.res q).execs := by
        intro q
        cases e with
        | send r c => by_cases hq : q = r <;> simp [estep, State.setRes, hq]
        | setStop r => by_cases hq : q = r <;> simp [estep, State.setRes, hq]
        | interrupt c => rfl
        | advance c dt => rfl
        | openGate => rfl
      simp only [estep_shared, hres]
      exact ⟨⟨c, p, q, h0, h1, h2⟩, hsum⟩

/-- **Paired shared variables stay equal**, unconditionally: for every number of resources,
increments, inputs (fault injections at either fault point), configurations and interleavings,
`pa = pb` in the atomic view of every reachable state, in particular whenever no section is in
progress.  (A cycle that faults between the two writes is not written back: the closure runs
`sync_from_locked` only `if result.is_ok()`.) -/
theorem c20_pair_equal (n : Nat) (inc : Nat → Int) (input : Nat → Nat → Int)
    (cfg : Nat → Cfg) (c0 p0 : Int) {s : State}
    (h : Reachable (counterSys n inc input cfg c0 p0) s) :
    (aview (counterSys n inc input cfg c0 p0) s).shared 1 =
      (aview (counterSys n inc input cfg c0 p0) s).shared 2 := by
  have := shared_inv (S := counterSys n inc input cfg c0 p0)
    (fun sh => ∃ c p, sh 0 = some c ∧ sh 1 = some p ∧ sh 2 = some p) ?_ ?_ h
  · obtain ⟨c, p, _, h1, h2⟩ := this
    rw [h1, h2]
  · exact ⟨c0, p0, by simp [counterSys, counterInit], by simp [counterSys, counterInit],
      by simp [counterSys, counterInit]⟩
  · intro r R sh ⟨c, p, h0, h1, h2⟩
    obtain ⟨_, hcr⟩ := counter_crit n inc input cfg c0 p0 r R sh c p p h0 h1 h2
    rw [hcr]
    by_cases e : input r R.execs = 1 ∨ input r R.execs = 2
    · exact ⟨c, p, by simp [e, h0, h1, h2]⟩
    · exact ⟨c + inc r, p + 1, by simp [e, Store.set]⟩

/-- A faulting cycle publishes nothing: one resource, one cycle, fault point 2 (between the two
writes) — the thread ends `Faulted` and the shared map is the initial one. -/
example : ∃ s, Reachable (counterSys 1 (fun _ => 1) (fun _ _ => 2) (fun _ => {}) 0 0) s ∧
    s.lock = none ∧ (s.res 0).pc = .done .faulted ∧
    s.shared 0 = some 0 ∧ s.shared 1 = some 0 ∧ s.shared 2 = some 0 := by
  refine ⟨_, ⟨[.res 0, .res 0, .res 0, .res 0, .res 0, .res 0, .res 0, .res 0, .res 0], rfl⟩, ?_⟩
  decide

/-! ## Clause 2: a paused resource executes no cycle until resumed -/

/-- The published state `Paused` means what it says: the thread's pause flag is set and the thread
is neither waiting for nor inside the locked closure. -/
theorem c20_state_paused {S : Sys} {s : State} (h : Reachable S s) (r : Nat)
    (hp : (s.res r).state = .paused) :
    (s.res r).paused = true ∧ (s.res r).pc.inCycle = false := by
  have hi := allInv_reachable h r
  exact ⟨hi.state_paused hp, hi.paused_out (hi.state_paused hp)⟩

/-- **No cycle while paused, for every continuation.**  Once the controller can read `Paused` for
`r` and no `Resume` is pending, then along every continuation `ls` of the execution in which no
`Resume` is sent to `r` — whatever else happens: clock advances, interrupts, other commands,
stop, other threads — `r` calls `execute_cycle` not once. -/
theorem c20_paused_no_cycle {S : Sys} {s s' : State} {ls : List Label} (r : Nat)
    (h : Reachable S s) (hp : (s.res r).state = .paused)
    (hq : Cmd.resume ∉ (s.res r).queue)
    (hl : ∀ l ∈ ls, l ≠ Label.env (.send r .resume))
    (hrun : run S s ls = some s') :
    (s'.res r).execs = (s.res r).execs ∧ (s'.res r).paused = true := by
  have hi := allInv_reachable h
  obtain ⟨a, b, _⟩ := paused_run r ls s s' hi ((hi r).state_paused hp) hq hl hrun
  exact ⟨b, a⟩

/-! ## Clause 3: stop always terminates the thread, state Stopped, retained data saved once -/

/-- **What can block a thread.**  With `stop` set and its clock interrupted (both are done by
`ResourceControl::stop`) a thread that has not ended can always act, except while it waits for a
mutex that another thread owns; and each of its actions decreases `stopFuel`. -/
theorem c20_stop_never_stuck {S : Sys} {s : State} (r : Nat)
    (hs : (s.res r).stop = true) (hc : (s.clocks (S.cfg r).clk).intr = true) :
    (∃ s', rstep S r s = some s' ∧ stopFuel (s'.res r) < stopFuel (s.res r)) ∨
      (s.res r).pc.isDone = true ∨ ((s.res r).pc = .lockWait ∧ s.lock ≠ none) := by
  rcases stop_rstep (S := S) hs hc with ⟨s', h1, h2, _⟩ | h | h
  · exact Or.inl ⟨s', h1, h2⟩
  · exact Or.inr (Or.inl h)
  · exact Or.inr (Or.inr h)

/-- The owner of the mutex is never blocked and releases it within four of its own actions
(`finishN S q 4` is four times `rstep S q`, stopping when the section is left). -/
theorem c20_lock_owner_progress {S : Sys} {s : State} {q : Nat} (h : Reachable S s)
    (hl : s.lock = some q) :
    rstep S q s = some (secState S q s) ∧ (finishN S q 4 s).lock = none := by
  have hin := (mutex_reachable h q).2 hl
  exact ⟨rstep_locked hin, (finish_done S q s hl hin).1⟩

/-- **Stop terminates.**  From any state in which `stop` is set for `r` and its clock is
interrupted, along every execution `ls`: the number of actions `r` takes is at most
`stopFuel` (≤ queue length + 9) plus the number of commands sent to `r` meanwhile, and once it
has taken that many its thread has ended. -/
theorem c20_stop_terminates {S : Sys} {s s' : State} {ls : List Label} (r : Nat)
    (hs : (s.res r).stop = true) (hc : (s.clocks (S.cfg r).clk).intr = true)
    (hrun : run S s ls = some s') :
    ls.countP (Label.isRes r) ≤ stopFuel (s.res r) + ls.countP (Label.isSend r) ∧
    (ls.countP (Label.isRes r) = stopFuel (s.res r) + ls.countP (Label.isSend r) →
      (s'.res r).pc.isDone = true) := by
  obtain ⟨_, _, h⟩ := stop_run r ls s s' hs hc hrun
  refine ⟨by omega, fun he => stopFuel_zero (by omega)⟩

/-- **How a thread ends, and how often it saves.**  In every reachable state: a thread that has
ended from the loop's stop check has state `Stopped` and called `save_retain_store` exactly once;
one stopped while still waiting at the start gate has state `Stopped`, never ran a cycle and
saved nothing; one that ended by a fault has state `Faulted` with `last_error` set and saved
nothing (a later `stop()` does not change that: an ended thread takes no action); a thread that
has not ended has not saved and is neither `Stopped` nor `Faulted`. -/
theorem c20_final_state {S : Sys} {s : State} (h : Reachable S s) (r : Nat) :
    ((s.res r).pc = .done .stopped →
        (s.res r).state = .stopped ∧ (s.res r).saves = 1 ∧ (s.res r).saved.isSome) ∧
    ((s.res r).pc = .done .gate →
        (s.res r).state = .stopped ∧ (s.res r).saves = 0 ∧ (s.res r).execs = 0) ∧
    ((s.res r).pc = .done .faulted →
        (s.res r).state = .faulted ∧ (s.res r).saves = 0 ∧ (s.res r).lastErr.isSome) ∧
    ((s.res r).pc.isDone = false →
        (s.res r).saves = 0 ∧ (s.res r).state ≠ .stopped ∧ (s.res r).state ≠ .faulted) := by
  have hi := allInv_reachable h r
  exact ⟨hi.doneStopped, hi.doneGate, hi.doneFaulted, fun hd => ⟨(hi.live hd).1, (hi.live hd).2.2⟩⟩

/-- Retained data is saved at most once, and exactly once iff the thread was stopped from its loop. -/
theorem c20_saves_once {S : Sys} {s : State} (h : Reachable S s) (r : Nat) :
    (s.res r).saves ≤ 1 ∧ ((s.res r).saves = 1 ↔ (s.res r).pc = .done .stopped) := by
  have hi := allInv_reachable h r
  cases hpc : (s.res r).pc with
  | done e =>
    cases e with
    | gate => have := hi.doneGate hpc; simp [this.2.1]
    | stopped => have := hi.doneStopped hpc; simp [this.2.1]
    | faulted => have := hi.doneFaulted hpc; simp [this.2.1]
  | _ =>
    have := (hi.live (by simp [hpc, Pc.isDone])).1
    simp [this]

/-- An ended thread takes no further action. -/
theorem c20_done_is_final {S : Sys} {s : State} (r : Nat) (h : (s.res r).pc.isDone = true) :
    rstep S r s = none := by
  cases hpc : (s.res r).pc <;> simp [hpc, Pc.isDone] at h
  simp [rstep, hpc, localStep]

/-! ## Clause 4: a fault in one resource never blocks the others -/

/-- **Exactly what blocks a thread** (any state, any thread): it has ended, or it waits at the
closed gate without `stop`, or it sleeps with the deadline ahead and its clock not interrupted,
or it waits for the mutex while some thread owns it.  Nothing else — in particular not the state
of any other thread. -/
theorem c20_blocked_iff {S : Sys} {s : State} (r : Nat) :
    rstep S r s = none ↔
      (s.res r).pc.isDone = true ∨
      ((s.res r).pc = .gate ∧ s.gateOpen = false ∧ (s.res r).stop = false) ∨
      (∃ d, (s.res r).pc = .sleep d ∧ (s.clocks (S.cfg r).clk).intr = false ∧
        (s.clocks (S.cfg r).clk).now < d) ∨
      ((s.res r).pc = .lockWait ∧ s.lock ≠ none) := by
  cases hpc : (s.res r).pc <;> simp [rstep, hpc, localStep, Pc.isDone]
  case start => split <;> simp
  case gate => cases s.gateOpen <;> cases (s.res r).stop <;> simp
  case top => split <;> simp
  case drain => split <;> simp
  case pauseChk => split <;> (try split) <;> simp
  case lockWait => cases s.lock <;> simp

/-- **Fault isolation.**  A thread that has ended — by a fault or otherwise — does not own the
mutex (the guard was dropped before the fault was recorded), so by `c20_blocked_iff` and
`c20_lock_owner_progress` it blocks nobody: whoever waits for the mutex waits for a live owner,
which is never blocked and releases within four actions. -/
theorem c20_fault_isolated {S : Sys} {s : State} (h : Reachable S s) (q : Nat)
    (hd : (s.res q).pc.isDone = true) : s.lock ≠ some q := by
  intro hl
  have := (mutex_reachable h q).2 hl
  cases hpc : (s.res q).pc <;> simp [hpc, Pc.isDone, Pc.inLocked] at hd this

/-- **No deadlock on the shared mutex.**  In every reachable state, if some thread waits for the
mutex then some thread can act: the waiter itself if the mutex is free, otherwise the owner
(which, by `c20_fault_isolated`, has not ended and, by `c20_lock_owner_progress`, releases the
mutex within four actions). -/
theorem c20_no_deadlock {S : Sys} {s : State} (h : Reachable S s) (r : Nat)
    (hw : (s.res r).pc = .lockWait) : ∃ q, (rstep S q s).isSome = true := by
  cases hl : s.lock with
  | none => exact ⟨r, by simp [rstep, hw, hl]⟩
  | some q => exact ⟨q, by rw [(c20_lock_owner_progress h hl).1]; rfl⟩

/-! ## Non-vacuity -/

/-- The hypotheses of `c20_paused_no_cycle` are satisfiable: send `Pause`, let the thread reach
its drain loop and process it. -/
example : ∃ s, Reachable (counterSys 1 (fun _ => 1) (fun _ _ => 0) (fun _ => {}) 0 0) s ∧
    (s.res 0).state = .paused ∧ Cmd.resume ∉ (s.res 0).queue := by
  refine ⟨_, ⟨[.env (.send 0 .pause), .res 0, .res 0, .res 0], rfl⟩, ?_⟩
  decide

/-- The hypotheses of `c20_stop_terminates` are satisfiable (`stop()` sets both flags), and the
bound is attained: a thread stopped while draining takes exactly `stopFuel` actions. -/
example : ∃ s, Reachable (counterSys 1 (fun _ => 1) (fun _ _ => 0) (fun _ => { interval := 10 }) 0 0) s ∧
    (s.res 0).stop = true ∧ (s.clocks 0).intr = true ∧ (s.res 0).pc = .done .stopped ∧
    (s.res 0).saves = 1 := by
  refine ⟨_, ⟨[.res 0, .res 0, .env (.setStop 0), .env (.interrupt 0), .res 0, .res 0, .res 0,
    .res 0, .res 0, .res 0, .res 0, .res 0, .res 0], rfl⟩, ?_⟩
  decide

/-- `c20_cycle_sees_snapshot`, `c20_lock_protects`: a state with an owner at `locked1` is reachable. -/
example : ∃ s, Reachable (counterSys 2 (fun _ => 1) (fun _ _ => 0) (fun _ => {}) 0 0) s ∧
    s.lock = some 1 ∧ (s.res 1).pc = .locked1 ∧ (s.res 0).pc = .lockWait := by
  refine ⟨_, ⟨[.res 0, .res 0, .res 0, .res 0, .res 1, .res 1, .res 1, .res 1, .res 1, .res 1], rfl⟩, ?_⟩
  decide

/-- Two resources, interleaved as finely as the mutex allows: both cycles count. -/
example : ∃ s, Reachable (counterSys 2 (fun r => if r = 0 then 3 else 5) (fun _ _ => 0) (fun _ => {}) 0 0) s ∧
    s.lock = none ∧ s.shared 0 = some 8 ∧ s.shared 1 = some 2 ∧ s.shared 2 = some 2 := by
  refine ⟨_, ⟨[.res 0, .res 1, .res 0, .res 1, .res 0, .res 1, .res 0, .res 1, .res 0, .res 0,
    .res 0, .res 0, .res 0, .res 1, .res 1, .res 1, .res 1, .res 1], rfl⟩, ?_⟩
  decide

end TrustVerif.C20
