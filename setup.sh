#!/bin/sh
# Offline build of the framework: Lean project (models, proofs, driver) and the Rust harness.
set -e
cd "$(dirname "$0")"
export CARGO_NET_OFFLINE=true
mkdir -p .build work evidence replays
./gen_registry.py
(cd lean && lake build TrustVerif driver)
(cd harness && cargo build --offline --features verif-hooks)
# the language server binary with the text hook (C14, C15); checks rebuild it on every run as well
cargo build --offline --manifest-path /repo/Cargo.toml -p trust-lsp --features verif-hooks --target-dir "$PWD/.build/lsp"
# the DAP adapter binary (C17 regression replay); the check rebuilds it on every run as well
cargo build --offline --manifest-path /repo/Cargo.toml -p trust-debug --target-dir "$PWD/.build/dap"
