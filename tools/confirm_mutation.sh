#!/bin/sh
# usage: tools/confirm_mutation.sh <mutation dir with patch.diff + demo.rs> <crate> <demo test name>
# Confirms in the scratch repo worktree /tmp/mut/wt: (a) demo fails with the patch, (b) the crate's
# existing suite passes with the patch, (c) demo passes without the patch.  Prints a summary line.
D="$1"; CRATE="$2"; NAME="$3"
export CARGO_TARGET_DIR=/tmp/mut/target CARGO_PROFILE_DEV_DEBUG=0 CARGO_PROFILE_TEST_DEBUG=0 CARGO_NET_OFFLINE=true
W=/tmp/mut/wt
git -C $W checkout -q --detach "$(git -C /repo rev-parse HEAD)"; git -C $W checkout -q -- .; git -C $W clean -fdq
cd $W
cp "$D/demo.rs" crates/$CRATE/tests/$NAME.rs
cargo test --offline -q -p $CRATE --test $NAME >/tmp/mut/confirm_clean.log 2>&1; CLEAN=$?
git apply "$D/patch.diff" || { echo "PATCH DOES NOT APPLY"; exit 2; }
cargo test --offline -q -p $CRATE --test $NAME >/tmp/mut/confirm_mut.log 2>&1; MUT=$?
rm crates/$CRATE/tests/$NAME.rs
cargo test --offline -q -p $CRATE --no-fail-fast >/tmp/mut/confirm_suite.log 2>&1; SUITE=$?
FAILED=$(grep -E "^test .* FAILED|^    [a-z_:]+$" /tmp/mut/confirm_suite.log | sort -u | tr '\n' ' ')
git -C $W checkout -q -- .; git -C $W clean -fdq
echo "CONFIRM $D: demo_on_clean_rc=$CLEAN demo_on_mutant_rc=$MUT suite_on_mutant_rc=$SUITE failed_tests=[$FAILED]"
