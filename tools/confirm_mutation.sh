#!/bin/sh
# usage: tools/confirm_mutation.sh <mutation dir with patch.diff + demo.rs|demo.diff> <crate> <demo test name or filter>
# Confirms in the scratch repo worktree /tmp/mut/wt (exclusive target dir /tmp/mut/target_confirm):
# (a) demo passes without the patch, (b) demo fails with it, (c) the crate's suite passes with it.
D="$1"; CRATE="$2"; NAME="$3"
LANE="${CONFIRM_LANE:-0}"
export CARGO_TARGET_DIR=/tmp/mut/target_confirm$LANE CARGO_PROFILE_DEV_DEBUG=0 CARGO_PROFILE_TEST_DEBUG=0 CARGO_NET_OFFLINE=true
W=/tmp/mut/wt_confirm$LANE
[ -d $W ] || git -C /repo worktree add -q --detach $W
git -C $W checkout -q --detach "$(git -C /repo rev-parse HEAD)"; git -C $W checkout -q -- .; git -C $W clean -fdq
cd $W
if [ -f "$D/demo.diff" ]; then
  git apply "$D/demo.diff" || { echo "CONFIRM $D: DEMO DIFF DOES NOT APPLY"; exit 2; }
  RUN="cargo test --offline -q -p $CRATE $NAME"
else
  cp "$D/demo.rs" crates/$CRATE/tests/$NAME.rs
  RUN="cargo test --offline -q -p $CRATE --test $NAME"
fi
$RUN >/tmp/mut/confirm_clean$LANE.log 2>&1; CLEAN=$?
git apply "$D/patch.diff" || { echo "CONFIRM $D: PATCH DOES NOT APPLY"; git -C $W checkout -q -- .; git -C $W clean -fdq; exit 2; }
$RUN >/tmp/mut/confirm_mut$LANE.log 2>&1; MUT=$?
# suite with the mutation but without the demo
git -C $W checkout -q -- .; git -C $W clean -fdq; git apply "$D/patch.diff"
timeout 1200 cargo test --offline -q -p $CRATE --no-fail-fast -- --skip breakpoint_set_while_running_hits_on_subsequent_cycle >/tmp/mut/confirm_suite$LANE.log 2>&1; SUITE=$?
FAILED=$(grep -E "^test .* FAILED$|^    [a-zA-Z_:0-9]+$" /tmp/mut/confirm_suite$LANE.log | sort -u | tr -s ' \n' ' ')
git -C $W checkout -q -- .; git -C $W clean -fdq
echo "CONFIRM $D: demo_on_clean_rc=$CLEAN demo_on_mutant_rc=$MUT suite_on_mutant_rc=$SUITE failed_tests=[$FAILED]"
