#!/usr/bin/env python3
"""Coordinator helper: merge a builder branch into the current branch of /verif.

known_findings.json is the one shared data file builders touch; a conflict there is resolved by
taking the union of both sides' entries (keyed by property + id/commit/what)."""
import json
import subprocess
import sys
import os

HERE = os.path.dirname(os.path.dirname(os.path.abspath(__file__)))


def git(*a, check=True):
    return subprocess.run(["git", "-C", HERE] + list(a), check=check, capture_output=True, text=True)


def load_at(ref):
    r = git("show", f"{ref}:known_findings.json", check=False)
    if r.returncode != 0:
        return []
    try:
        return json.loads(r.stdout).get("findings", [])
    except Exception:
        return []


def key(f):
    return (f.get("property"), f.get("id") or f.get("commit") or f.get("what"))


def main():
    br = sys.argv[1]
    ours, theirs = load_at("HEAD"), load_at(br)
    r = git("merge", "--no-edit", br, check=False)
    print(r.stdout[-2000:], r.stderr[-2000:])
    # the branch is authoritative for the entries of the properties it owns (status updates!)
    own = {"c01": ["C01", "C02", "C03"]}.get(br, [br.upper()])
    mine = [f for f in theirs if f.get("property") in own]
    commits = {f.get("commit") for f in mine}
    keep = [f for f in ours if f.get("property") not in own
            or (f.get("status") == "fixed" and not f.get("id") and f.get("commit") not in commits)]
    if not mine:
        keep = ours
    merged = keep + mine
    for f in merged:
        if f.get("status") == "fixed" and f.get("commit"):
            f["record"] = f"fixed: property={f['property']} {f['commit']} {f.get('what', '')}"
    with open(os.path.join(HERE, "known_findings.json"), "w") as fh:
        json.dump({"findings": merged}, fh, indent=1)
        fh.write("\n")
    st = git("status", "--porcelain").stdout
    conflicts = [l for l in st.splitlines() if l[:2] in ("UU", "AA", "DU", "UD")]
    # evidence files are rewritten by every run: take the branch's version, the coordinator re-runs the check
    for l in conflicts:
        path = l[3:].strip()
        if path.startswith("evidence/"):
            git("checkout", "--theirs", path, check=False)
            git("add", path, check=False)
    others = [l for l in conflicts if not l.endswith("known_findings.json") and not l[3:].strip().startswith("evidence/")]
    if others:
        print("UNRESOLVED CONFLICTS:\n" + "\n".join(others))
        sys.exit(1)
    git("add", "known_findings.json")
    if conflicts or git("diff", "--cached", "--quiet", check=False).returncode != 0:
        git("commit", "--no-edit", "-m", f"merge {br}", check=False)
    print("merged", br, "findings:", len(merged))


if __name__ == "__main__":
    main()
