#!/bin/sh
# usage: tools/mutcheck.sh <patch.diff> <PID> [seed]
# Applies a patch to the scratch repo worktree /tmp/mut/wt (reset to /repo HEAD first), runs the check
# from the scratch /verif worktree /tmp/vw/mutcheck (synced to /verif HEAD, path deps -> /tmp/mut/wt),
# prints the check's last lines, and resets the scratch repo worktree. /repo itself is never touched.
set -e
PATCH="$1"; PID="$2"; SEED="${3:-1}"
# both scratch worktrees are created on demand (and may be removed at any time: `git worktree remove --force`)
mkdir -p /tmp/mut /tmp/vw
[ -d /tmp/mut/wt ] || git -C /repo worktree add -q --detach /tmp/mut/wt
if [ ! -d /tmp/vw/mutcheck ]; then
  git -C /verif worktree prune
  git -C /verif worktree add -q /tmp/vw/mutcheck mutcheck 2>/dev/null || git -C /verif worktree add -q /tmp/vw/mutcheck -b mutcheck main
fi
git -C /tmp/mut/wt checkout -q --detach "$(git -C /repo rev-parse HEAD)"
git -C /tmp/mut/wt checkout -q -- . && git -C /tmp/mut/wt clean -fdq
cd /tmp/vw/mutcheck
git checkout -q -- harness/Cargo.toml
git merge -q --no-edit main >/dev/null 2>&1 || git reset -q --hard main
sed -i 's#/repo/crates#/tmp/mut/wt/crates#' harness/Cargo.toml
if [ "$PATCH" != "none" ]; then git -C /tmp/mut/wt apply "$PATCH"; fi
rm -f replays/*.json
VERIF_SEED=$SEED ./check.py "$PID" 2>&1 | tail -8 || true
git -C /tmp/mut/wt checkout -q -- . && git -C /tmp/mut/wt clean -fdq
