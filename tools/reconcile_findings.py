#!/usr/bin/env python3
"""Rebuild known_findings.json: for every property take the entries of its builder branch (the
branch that owns the property is authoritative for its entries' status), keep coordinator-only
entries (fixed records without a builder twin), add the `record` line to fixed entries."""
import json, subprocess, os
HERE = os.path.dirname(os.path.dirname(os.path.abspath(__file__)))
OWN = {f"c{n:02d}": [f"C{n:02d}"] for n in range(4, 21)}
OWN["c01"] = ["C01", "C02", "C03"]
import sys
ONLY = set(sys.argv[1:])  # branches to take as authoritative; others keep main's entries
def at(ref):
    r = subprocess.run(["git", "-C", HERE, "show", f"{ref}:known_findings.json"], capture_output=True, text=True)
    return json.loads(r.stdout).get("findings", []) if r.returncode == 0 else []
main = json.load(open(os.path.join(HERE, "known_findings.json")))["findings"]
out, seen_commit = [], set()
for br, props in sorted(OWN.items()):
    ent = [f for f in at(br) if f.get("property") in props] if br in ONLY else []
    if not ent:
        ent = [f for f in main if f.get("property") in props]
    else:
        # coordinator-only fixed records for this property whose commit the branch does not mention
        commits = {f.get("commit") for f in ent}
        ent += [f for f in main if f.get("property") in props and f.get("status") == "fixed"
                and not f.get("id") and f.get("commit") not in commits]
    out += ent
for f in out:
    if f.get("status") == "fixed" and f.get("commit"):
        f["record"] = f"fixed: property={f['property']} {f['commit']} {f.get('what','')}"
json.dump({"findings": out}, open(os.path.join(HERE, "known_findings.json"), "w"), indent=1)
import collections
c = collections.Counter((f["property"], f.get("status")) for f in out)
for k in sorted(c): print(k, c[k])
