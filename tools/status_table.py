#!/usr/bin/env python3
"""Rewrites the 'obligations' and 'open findings' columns of DESIGN.md 12.4 from evidence/*.json and
known_findings.json (run after the final quick sweep)."""
import json, re, collections, os
root = os.path.dirname(os.path.dirname(os.path.abspath(__file__)))
kf = json.load(open(f"{root}/known_findings.json"))["findings"]
opened = collections.Counter(f["property"] for f in kf if f.get("status") == "open")
p = f"{root}/DESIGN.md"
lines = open(p).read().split("\n")
out = []
for l in lines:
    m = re.match(r"^\| (C\d\d) \| ([^|]*) \| ([^|]*) \| ([^|]*) \| ([^|]*) \|$", l)
    ev = f"{root}/evidence/{m.group(1)}.json" if m else None
    if m and os.path.exists(ev) and "| id |" not in l:
        e = json.load(open(ev))
        ob = e.get("coverage", {}).get("obligations")
        if ob is not None:
            l = f"| {m.group(1)} | {ob} | {m.group(3).strip()} | {opened.get(m.group(1), 0)} | {m.group(5).strip()} |"
    out.append(l)
open(p, "w").write("\n".join(out))
