"""Shared machinery of the /verif checks.

A check (checks/cXX.py) describes one property; `run_check` executes the pipeline of DESIGN.md §2:
translate -> prove (lake build + axiom audit) -> build the Rust harness against /repo's working
tree -> run the implementation on generated cases -> run the Lean model on the same cases ->
diff -> evidence / violation.
"""
import hashlib
import json
import os
import re
import subprocess
import sys
import time

VERIF = os.path.dirname(os.path.abspath(__file__))
LEAN = os.path.join(VERIF, "lean")
HARNESS = os.path.join(VERIF, "harness")
BUILD = os.path.join(VERIF, ".build")
WORK = os.path.join(VERIF, "work")
EVIDENCE = os.path.join(VERIF, "evidence")
REPLAYS = os.path.join(VERIF, "replays")
DRIVER = os.path.join(LEAN, ".lake", "build", "bin", "driver")
VHARNESS = os.path.join(BUILD, "cargo", "debug", "vharness")
KNOWN = os.path.join(VERIF, "known_findings.json")

ALLOWED_AXIOMS = {"propext", "Classical.choice", "Quot.sound"}
FORBIDDEN = re.compile(
    r"\b(sorry|admit|native_decide|bv_decide|implemented_by|unsafe)\b|^\s*axiom\s|maxHeartbeats\s+0\b"
)

ENV = dict(os.environ)
ENV.update({"CARGO_NET_OFFLINE": "true", "CARGO_TERM_COLOR": "never"})


def repo_root():
    """The source tree the harness is built against: read from harness/Cargo.toml, so that a check run
    from a scratch checkout whose path dependencies point at a scratch worktree of /repo (mutation
    testing) translates, scans and builds that tree and not /repo."""
    toml = open(os.path.join(HARNESS, "Cargo.toml")).read()
    m = re.search(r'trust-runtime\s*=\s*\{\s*path\s*=\s*"([^"]+)/crates/trust-runtime"', toml)
    if not m:
        raise RuntimeError("harness/Cargo.toml: trust-runtime path dependency not found")
    return m.group(1)


def sh(cmd, cwd=None, timeout=None, stdin=None, env=None):
    """Run a command; return (rc, stdout+stderr)."""
    p = subprocess.run(
        cmd,
        cwd=cwd,
        stdin=stdin,
        stdout=subprocess.PIPE,
        stderr=subprocess.STDOUT,
        timeout=timeout,
        env=env or ENV,
        text=True,
        errors="replace",
    )
    return p.returncode, p.stdout


def ensure_dirs():
    for d in (BUILD, WORK, EVIDENCE, REPLAYS):
        os.makedirs(d, exist_ok=True)


# --------------------------------------------------------------------------------------------
# Lean side
# --------------------------------------------------------------------------------------------

def strip_comments(text):
    """Remove Lean block comments (nested) and line comments."""
    out = []
    i, depth, n = 0, 0, len(text)
    while i < n:
        if text.startswith("/-", i):
            depth += 1
            i += 2
        elif depth and text.startswith("-/", i):
            depth -= 1
            i += 2
        elif depth:
            if text[i] == "\n":
                out.append("\n")
            i += 1
        elif text.startswith("--", i):
            while i < n and text[i] != "\n":
                i += 1
        else:
            out.append(text[i])
            i += 1
    return "".join(out)


def lean_closure(module):
    """Transitive closure of `import TrustVerif.*` starting at `module` (module names)."""
    seen, todo = [], [module]
    while todo:
        m = todo.pop()
        if m in seen:
            continue
        seen.append(m)
        path = os.path.join(LEAN, *m.split(".")) + ".lean"
        if not os.path.exists(path):
            continue
        for line in open(path, encoding="utf-8"):
            mm = re.match(r"\s*import\s+(TrustVerif\.[\w.]+)", line)
            if mm:
                todo.append(mm.group(1))
    return seen


def lean_theorems(module):
    """(namespace, [theorem names]) declared in a Props module."""
    path = os.path.join(LEAN, *module.split(".")) + ".lean"
    text = strip_comments(open(path, encoding="utf-8").read())
    ns = re.search(r"^namespace\s+([\w.]+)", text, re.M)
    names = re.findall(r"^(?:private\s+|protected\s+)?theorem\s+([\w.']+)", text, re.M)
    return (ns.group(1) if ns else ""), names


def lean_prove(pid, modules=None):
    """Build the property's theorem module(s) and the driver; audit sources and axioms.

    Returns a dict: ok, obligations, discharged, theorems, failures (list of strings), log.
    """
    modules = modules or [f"TrustVerif.Props.{pid}"]
    res = {"ok": True, "obligations": 0, "discharged": 0, "theorems": [], "failures": [], "log": ""}
    subprocess.run([sys.executable, os.path.join(VERIF, "gen_registry.py")], check=True)
    rc, log = sh(["lake", "build"] + modules + ["driver"], cwd=LEAN, timeout=3600)
    res["log"] = log
    if rc != 0:
        res["ok"] = False
        errs = [l for l in log.splitlines() if l.startswith("error:")]
        res["failures"].append("lake build failed: " + " | ".join(errs[:6]))
    # source audit over the import closure
    files = []
    for m in modules:
        for dep in lean_closure(m):
            if dep not in files:
                files.append(dep)
    for dep in files:
        path = os.path.join(LEAN, *dep.split(".")) + ".lean"
        if not os.path.exists(path):
            continue
        body = strip_comments(open(path, encoding="utf-8").read())
        for ln, line in enumerate(body.splitlines(), 1):
            if FORBIDDEN.search(line):
                res["ok"] = False
                res["failures"].append(f"forbidden construct in {dep}:{ln}: {line.strip()[:80]}")
    res["audited_files"] = files
    # axiom audit
    lemma_count = 0
    for dep in files:
        if ".Lemmas." in dep:
            lemma_count += len(lean_theorems(dep)[1])
    audit_lines = []
    thms = []
    for m in modules:
        ns, names = lean_theorems(m)
        audit_lines.append(f"import {m}")
        for nm in names:
            thms.append((ns, nm))
    audit_src = "\n".join(audit_lines) + "\n" + "\n".join(
        (f"open {ns} in\n" if ns else "") + f"#print axioms {nm}" for ns, nm in thms
    ) + "\n"
    apath = os.path.join(WORK, f"Audit_{pid}.lean")
    with open(apath, "w") as f:
        f.write(audit_src)
    res["obligations"] = len(thms) + lemma_count
    if rc == 0:
        rc2, alog = sh(["lake", "env", "lean", apath], cwd=LEAN, timeout=1800)
        res["audit_log"] = alog
        # parse: "'name' depends on axioms: [a, b]" / "'name' does not depend on any axioms"
        flat = re.sub(r"\s+", " ", alog)
        found = {}
        for mm in re.finditer(r"'([^']+)' depends on axioms: \[([^\]]*)\]", flat):
            found[mm.group(1)] = {a.strip() for a in mm.group(2).split(",") if a.strip()}
        for mm in re.finditer(r"'([^']+)' does not depend on any axioms", flat):
            found[mm.group(1)] = set()
        good = 0
        for ns, nm in thms:
            full = f"{ns}.{nm}" if ns else nm
            ax = found.get(full)
            if ax is None:
                res["ok"] = False
                res["failures"].append(f"no axiom report for {full}")
                continue
            bad = ax - ALLOWED_AXIOMS
            res["theorems"].append({"name": full, "axioms": sorted(ax)})
            if bad:
                res["ok"] = False
                res["failures"].append(f"{full} depends on {sorted(bad)}")
            else:
                good += 1
        if rc2 != 0 and good < len(thms):
            res["ok"] = False
        res["discharged"] = good + (lemma_count if good == len(thms) else 0)
    return res


def leanchecker(modules):
    rc, log = sh(["lake", "env", "leanchecker"] + modules, cwd=LEAN, timeout=3600)
    return rc == 0, log


# --------------------------------------------------------------------------------------------
# Rust side
# --------------------------------------------------------------------------------------------

def build_harness(features=("verif-hooks",)):
    cmd = ["cargo", "build", "--offline", "--quiet"]
    if features:
        cmd += ["--features", ",".join(features)]
    t = time.time()
    rc, log = sh(cmd, cwd=HARNESS, timeout=3600)
    return rc == 0, log, time.time() - t


def run_harness(sub, seed, cases, out, extra=None, timeout=3600):
    cmd = [VHARNESS, sub, "--seed", str(seed), "--cases", str(cases), "--out", out]
    for k, v in (extra or {}).items():
        cmd += [f"--{k}", str(v)]
    rc, log = sh(cmd, cwd=WORK, timeout=timeout)
    return rc, log


def run_driver(sub, cases_path, out_path, timeout=3600):
    with open(cases_path, "rb") as fin, open(out_path, "wb") as fout:
        p = subprocess.run([DRIVER, sub], stdin=fin, stdout=fout, stderr=subprocess.PIPE, timeout=timeout)
    return p.returncode, p.stderr.decode(errors="replace")


# --------------------------------------------------------------------------------------------
# Cases files
# --------------------------------------------------------------------------------------------

class Case:
    __slots__ = ("n", "lines", "ops", "tags")

    def __init__(self, n):
        self.n = n
        self.lines = []   # every line of the case except `case`/`end`
        self.ops = []     # (op_line, impl_line or None) for ops that carry an impl answer
        self.tags = set()

    def body_hash(self):
        h = hashlib.sha256()
        for l in self.lines:
            if not l.startswith("impl") and not l.startswith("tag"):
                h.update(l.encode())
                h.update(b"\n")
        return h.hexdigest()


def parse_cases(path):
    cases, cur, last_op = [], None, None
    with open(path, encoding="utf-8", errors="replace") as f:
        for raw in f:
            line = raw.rstrip("\n")
            if line.startswith("case "):
                cur = Case(line.split()[1])
                cases.append(cur)
                last_op = None
            elif line == "end":
                cur = None
            elif cur is not None:
                cur.lines.append(line)
                if line.startswith("impl"):
                    cur.ops.append((last_op, line[5:] if len(line) > 4 else ""))
                elif line.startswith("tag "):
                    cur.tags.update(line.split()[1:])
                elif line and not line.startswith("#"):
                    last_op = line
    return cases


def diff_model(cases, model_path):
    """Pair every `impl` line with the model's `m` line (same order). Returns disagreements."""
    with open(model_path, encoding="utf-8", errors="replace") as f:
        model = [l.rstrip("\n") for l in f]
    dis, k = [], 0
    bad_ops = [l for l in model if l.startswith("bad-op")]
    for c in cases:
        for j, (op, impl) in enumerate(c.ops):
            m = model[k] if k < len(model) else "<missing>"
            k += 1
            mm = m[2:] if m.startswith("m ") else (m[1:] if m == "m" else m)
            if mm != impl:
                dis.append({"case": c.n, "op_index": j, "op": op, "impl": impl, "model": mm})
    if k != len(model):
        dis.append({"case": "-", "op_index": -1, "op": "<line count>", "impl": str(k), "model": str(len(model))})
    return dis, bad_ops


# --------------------------------------------------------------------------------------------
# Known findings, evidence, reporting
# --------------------------------------------------------------------------------------------

def known_findings(pid):
    if not os.path.exists(KNOWN):
        return []
    data = json.load(open(KNOWN))
    return [f for f in data.get("findings", []) if f.get("property") == pid and f.get("status") == "open"]


def write_replay(pid, obj):
    ensure_dirs()
    blob = json.dumps(obj, indent=1, sort_keys=True)
    h = hashlib.sha256(blob.encode()).hexdigest()[:12]
    path = os.path.join(REPLAYS, f"{pid}-{h}.json")
    with open(path, "w") as f:
        f.write(blob + "\n")
    return path


def write_evidence(pid, tier, seed, level, coverage, assumptions, wall, violations):
    ensure_dirs()
    ev = {
        "property_id": pid,
        "tier": tier,
        "seed": int(seed),
        "level": level,
        "coverage": coverage,
        "assumptions": assumptions,
        "wall_s": round(wall, 2),
        "violations": violations,
    }
    path = os.path.join(EVIDENCE, f"{pid}.json")
    tmp = path + ".tmp"
    with open(tmp, "w") as f:
        json.dump(ev, f, indent=1)
        f.write("\n")
    os.replace(tmp, path)
    return path


def report_violation(pid, replay_path, no_input=False):
    line = f"VIOLATION property={pid} replay={replay_path}"
    if no_input:
        line += " no-failing-input-found"
    print(line, flush=True)


def tier_and_seed(argv_tier=None, argv_seed=None):
    tier = argv_tier or os.environ.get("VERIF_TIER") or "quick"
    seed = argv_seed if argv_seed is not None else os.environ.get("VERIF_SEED")
    try:
        seed = int(seed) if seed is not None and str(seed) != "" else 1
    except ValueError:
        seed = int(hashlib.sha256(str(seed).encode()).hexdigest()[:8], 16)
    return tier, seed & 0xFFFFFFFFFFFFFFFF
